"""C05 Event queues: one event per step, internal first, FIFO, delays respected."""
import ast

from .. import q
from ..cfg import build_cfg, guard_atoms, guards
from ..prog import strip_cast, dotted
from .common import exactly_for_class

EXPLANATION = (
    'Static rules over Interpreter._queue_event / _select_event / execute_once / _compute_steps / _raise_event and '
    'PythonEvaluator._execute_code: who may mutate the two queues, right-bisect insertion on (due time) into the '
    'queue that receives the insert, due time computed from the frozen step time, internal queue examined first, '
    'head-only peek and pop(0) of the peeked queue under `consume`, non-strict due test, a single conditional '
    'consumption per macro step, nothing able to reach a queue mutation between peek and pop, send() building '
    'InternalEvent objects that reach _queue_event. Decides the shape the FIFO/exactly-once behaviour rests on, '
    'not the behaviour over all interleavings.')

QUEUES = ('_internal_queue', '_external_queue')


def rules_owners(run, P='C05'):
    r = run.rule(P + '.1', 'the two event queues are mutated only by __init__, _queue_event (insert) and '
                           '_select_event (pop under consume)')
    prog = run.prog
    allowed = {'Interpreter.__init__': ('assign',), 'Interpreter._queue_event': ('mut:insert',),
               'Interpreter._select_event': ('mut:pop',)}
    n = 0
    for fi in prog.functions():
        if fi.outer is not None:
            continue
        for c, fld, kind, node in prog.direct_writes(fi):
            if fld in QUEUES and (c == 'Interpreter' or c.startswith('?')):
                n += 1
                okk = fi.short in allowed and kind in allowed[fi.short]
                run.check(okk, r, fi.short, 'write:%s.%s %s' % ('Interpreter', fld, kind),
                          'event queue mutated outside its owners (insert in _queue_event, pop in _select_event)', node)
    run.floor(n, 4, r, 'queue writers')


def rules_select_event(run, P='C05', rid='.3'):
    r = run.rule(P + rid, '_select_event examines the internal queue before the external one, looks at index 0 only, '
                           'applies the due test `queued <= step time`, pops index 0 of the peeked queue only under consume')
    fi = run.fn('Interpreter._select_event')
    F = fi.node
    loops = [n for n in q.walk(F, False) if isinstance(n, ast.For)]
    qloop = None
    for lp in loops:
        it = strip_cast(lp.iter)
        if isinstance(it, (ast.Tuple, ast.List)):
            names = [dotted(strip_cast(e)) for e in it.elts]
            if all(nm and nm.startswith('self.') for nm in names):
                qloop = (lp, names)
    if qloop is None:
        # one queue picked up front by emptiness (`internal or external`, `internal if internal else external`): the external queue is then
        # examined only when the internal one is empty, not whenever it has nothing due
        for n in q.walk(F, False):
            picks = None
            if isinstance(n, ast.BoolOp) and isinstance(n.op, ast.Or):
                picks = [dotted(strip_cast(v)) for v in n.values]
            elif isinstance(n, ast.IfExp):
                picks = [dotted(strip_cast(n.body)), dotted(strip_cast(n.orelse))]
            if picks and set(picks) == {'self._internal_queue', 'self._external_queue'}:
                run.fail(r, fi.short, 'both queues are examined for a due head', 'the queue to examine is chosen by emptiness (%s): a pending internal event that is not '
                         'due yet hides every due external event' % q.unparse(n)[:70], n)
    run.anchor(qloop, r, 'loop over the (internal, external) queues in _select_event')
    lp, names = qloop
    run.check(names == ['self._internal_queue', 'self._external_queue'], r, fi.short,
              'queue examination order ' + ','.join(names),
              'queues must be examined internal first, then external, each exactly once', lp)
    qv = lp.target.id if isinstance(lp.target, ast.Name) else None
    run.anchor(qv, r, 'loop variable of the queue loop')
    # peek: subscript of the loop variable with constant index 0
    subs = [n for n in ast.walk(lp) if isinstance(n, ast.Subscript) and isinstance(strip_cast(n.value), ast.Name)
            and strip_cast(n.value).id == qv]
    run.check(len(subs) >= 1, r, fi.short, 'peek of queue head', 'no head peek found', lp)
    for s in subs:
        idx = s.slice
        run.check(isinstance(idx, ast.Constant) and idx.value == 0, r, fi.short, 'peek index ' + q.unparse(s),
                  'only the head (index 0) of a queue may be examined', s)
    # the unpacking of the head gives (due, event)
    unpack = None
    for n in ast.walk(lp):
        if isinstance(n, ast.Assign) and isinstance(n.targets[0], ast.Tuple) and len(n.targets[0].elts) == 2 \
                and any(s is strip_cast(n.value) for s in subs):
            unpack = n
    run.anchor(unpack, r, '`due, event = queue[0]` unpacking')
    due, ev = [e.id for e in unpack.targets[0].elts]
    # returns of the event variable
    rets = [n for n in ast.walk(lp) if isinstance(n, ast.Return)]
    evrets = [n for n in rets if isinstance(n.value, ast.Name) and n.value.id == ev]
    run.check(len(evrets) >= 1 and len(evrets) == len(rets), r, fi.short, 'return of the peeked event',
              'the loop must return the event unpacked from the head (second component)', lp)

    def classify(op, l, r_, e):
        if op == '<=' and l == due and r_ == 'self.time':
            return 'DUE'
        if op == '<' and l == 'self.time' and r_ == due:
            return ('DUE', False)
        if op == '<' and l == due and r_ == 'self.time':
            return 'STRICT'
        if op == 'truthy' and l == qv:
            return 'NONEMPTY'
        if op == 'truthy' and l == 'consume':
            return 'CONSUME'
        return None

    for rt in evrets:
        ba = q.BoolAbs(classify)
        vs, sat = ba.table(guards(rt, stop=lp))
        bad = q.table_equals(vs, sat, lambda v: v.get('NONEMPTY', False) and v.get('DUE', False))
        run.check(not bad and 'DUE' in vs and 'NONEMPTY' in vs, r, fi.short, 'due test guarding the returned event',
                  'the head is returned iff the queue is non-empty and queued_time <= self.time (non-strict); got a '
                  'different condition over %s' % vs, rt)
    brk = [n for n in ast.walk(lp) if isinstance(n, ast.Break)]
    run.check(not brk, r, fi.short, 'a queue without due head never stops the examination of the next queue',
              'the loop over the queues can be left early: a not-yet-due internal event would hold back a due external one', brk[0] if brk else lp)
    pops = [c for c in q.calls(lp) if isinstance(c.func, ast.Attribute) and c.func.attr in ('pop', 'popleft', 'remove')
            or isinstance(c.func, ast.Attribute) and c.func.attr in ('clear',)]
    dels = [n for n in ast.walk(lp) if isinstance(n, ast.Delete)]
    run.check(len(pops) == 1 and not dels, r, fi.short, 'single pop site', 'exactly one removal site is expected, found %d'
              % (len(pops) + len(dels)), lp)
    for p in pops:
        recv = strip_cast(p.func.value)
        good = isinstance(recv, ast.Name) and recv.id == qv and (
            (p.func.attr == 'pop' and len(p.args) == 1 and isinstance(p.args[0], ast.Constant) and p.args[0].value == 0)
            or (p.func.attr == 'popleft' and not p.args))
        run.check(good, r, fi.short, 'pop ' + q.unparse(p), 'the consumed entry must be index 0 of the queue that was peeked', p)
        ba = q.BoolAbs(classify)
        vs, sat = ba.table(guards(p, stop=lp))
        bad = q.table_equals(vs, sat, lambda v: v.get('NONEMPTY', False) and v.get('DUE', False) and v.get('CONSUME', False))
        run.check(not bad and 'CONSUME' in vs, r, fi.short, 'pop guarded by consume and the due test',
                  'pop must happen iff consume and the head is due', p)
        for rt in evrets:
            run.check(q.strictly_before(F, p, rt) or not q.in_node(rt, q.enclosing(p, ast.If) or lp), r, fi.short,
                      'pop precedes return', 'pop must precede the return of the event', p)
    # `consume` defaults to False (peek)
    run.check(q.param_defaults(F).get('consume', None) is False, r, fi.short, 'consume defaults to False',
              'peeking must be the default mode of _select_event', F)
    # final return None
    last = F.body[-1]
    run.check(isinstance(last, ast.Return) and (last.value is None or isinstance(last.value, ast.Constant)
                                                and last.value.value is None), r, fi.short, 'falls back to None',
              'no due event must yield None', last)


def rules_consumption(run, P='C05', rid='.4'):
    r = run.rule(P + rid, 'execute_once consumes at most one event per macro step, exactly when the first computed step '
                          'carries an event; a pending event with no transition yields an event-carrying empty step')
    fi = run.fn('Interpreter.execute_once')
    F = fi.node
    pops = [c for c in q.calls_to(run, F, {'Interpreter._select_event'})]
    cons = [c for c in pops if q.arg(c, None, 'consume') is not None or c.args]
    run.check(len(cons) == 1 and len(pops) == 1, r, fi.short, 'single consuming _select_event call',
              'exactly one _select_event call (the consuming one) is expected in execute_once, found %d' % len(pops), F)
    if not cons:
        return
    comp = q.calls_to(run, F, {'Interpreter._compute_steps'})
    run.anchor(len(comp) == 1, r, 'single _compute_steps() call in execute_once')
    compst = q.enclosing_stmt(comp[0])
    cs_var = compst.targets[0].id if isinstance(compst, ast.Assign) and isinstance(compst.targets[0], ast.Name) else None
    run.anchor(cs_var, r, 'variable holding the computed steps')
    for c in cons:
        a = q.arg(c, 0, 'consume')
        run.check(isinstance(a, ast.Constant) and a.value is True, r, fi.short, 'consume=True', 'must consume', c)
        run.check(q.enclosing(c, (ast.For, ast.While)) is None, r, fi.short, 'consumption outside loops',
                  'the consumption must not sit in a loop (at most one event per macro step)', c)

        def classify(op, l, r_, e):
            if op == 'truthy' and l == cs_var:
                return 'STEPS'
            if op == 'is' and l == cs_var + '[0].event' and r_ == 'None':
                return ('EVT', False)
            if op == 'truthy' and l == cs_var + '[0].event':
                return 'EVT'
            return None
        ba = q.BoolAbs(classify)
        vs, sat = ba.table(guards(c))
        bad = q.table_equals(vs, sat, lambda v: v.get('STEPS', False) and v.get('EVT', False))
        run.check(not bad and 'EVT' in vs, r, fi.short, 'consumption conditional on first computed step carrying an event',
                  'the event must be consumed iff steps were computed and the first one carries an event (vars %s)' % vs, c)
        run.check(q.strictly_before(F, comp[0], c), r, fi.short, 'compute before consume',
                  '_compute_steps must precede the consumption', c)
    # _compute_steps: empty-step branch
    ci = run.fn('Interpreter._compute_steps')
    C = ci.node
    sel_all = q.calls_to(run, C, {'Interpreter._select_event'})
    consuming = [c for c in sel_all if c.args or c.keywords]
    for c in consuming:
        run.fail(r, ci.short, 'consuming _select_event call in the decision phase', 'an event is consumed before the non-determinism / conflict check has run (or more than once per step)', c)
    sel = [c for c in sel_all if c not in consuming]
    run.anchor(len(sel) == 1, r, 'single _select_event() peek in _compute_steps')
    run.check(not sel[0].args and not sel[0].keywords, r, ci.short, 'peek without consume',
              '_compute_steps must only peek (consume defaults to False)', sel[0])
    selst = q.enclosing_stmt(sel[0])
    ev = selst.targets[0].id if isinstance(selst, ast.Assign) and isinstance(selst.targets[0], ast.Name) else None
    run.anchor(ev, r, 'variable holding the peeked event')
    st = q.calls_to(run, C, {'Interpreter._select_transitions'})
    run.anchor(len(st) == 1, r, 'single _select_transitions call')
    stst = q.enclosing_stmt(st[0])
    tv = stst.targets[0].id if isinstance(stst, ast.Assign) and isinstance(stst.targets[0], ast.Name) else None
    run.anchor(tv, r, 'variable holding the selected transitions')
    a0 = q.arg(st[0], 0, 'event')
    run.check(isinstance(a0, ast.Name) and a0.id == ev, r, ci.short, 'selection sees the peeked event',
              '_select_transitions must receive the peeked event', st[0])
    a1 = q.arg(st[0], 1, 'states')
    run.check(a1 is not None and dotted(strip_cast(a1)) in ('self._configuration', 'self.configuration'), r, ci.short,
              'selection over the active configuration', 'states= must be the active configuration', st[0])
    # variables that hold the selected transitions: the selection itself and the result of sorting it
    so = q.calls_to(run, C, {'Interpreter._sort_transitions'})
    trans_vars = {tv}
    for c in so:
        st_ = q.enclosing_stmt(c)
        if isinstance(st_, ast.Assign) and isinstance(st_.targets[0], ast.Name) and c.args and isinstance(c.args[0], ast.Name) and c.args[0].id in trans_vars:
            trans_vars.add(st_.targets[0].id)

    def classify(op, l, r_, e):
        if op == 'truthy' and l in trans_vars:
            return ('NOTRANS', False)
        if op == 'is' and l == ev and r_ == 'None':
            return 'NOEVENT'
        if op == 'truthy' and l == ev:
            return ('NOEVENT', False)
        if op == 'truthy' and l == 'self._initialized':
            return 'INIT'
        return None
    rets = [n for n in q.walk(C, False) if isinstance(n, ast.Return)]
    seen_empty = seen_evt = False
    for rt in rets:
        ba = q.BoolAbs(classify)
        vs, sat = ba.table(guards(rt))
        v = strip_cast(rt.value)
        if 'NOTRANS' not in vs or not any('NOTRANS' in s_ for s_ in sat) and False:
            continue
        reach_notrans = [s_ for s_ in sat if 'NOTRANS' in s_]
        if not reach_notrans:
            continue      # not a no-transition return (e.g. the final return of the created steps)
        unknown = [x for x in vs if x.startswith('?')]
        if isinstance(v, (ast.List, ast.Tuple)) and not v.elts:
            seen_empty = True
            bad = q.table_equals(vs, sat, lambda a: a.get('INIT', True) and a.get('NOTRANS', False) and a.get('NOEVENT', False))
            run.check(not bad and not unknown, r, ci.short, 'no event, no transition -> no step',
                      'the empty result must be returned exactly when nothing was selected and no event is pending', rt)
        else:
            good = isinstance(v, ast.List) and len(v.elts) == 1 and isinstance(v.elts[0], ast.Call) and dotted(v.elts[0].func) == 'MicroStep'
            if good:
                kw = q.kwargs_of(v.elts[0])
                e0 = q.arg(v.elts[0], 0, 'event')
                good = isinstance(e0, ast.Name) and e0.id == ev and set(kw) <= {'event'} and len(v.elts[0].args) <= 1
            if good:
                seen_evt = True
                bad = q.table_equals(vs, sat, lambda a: a.get('INIT', True) and a.get('NOTRANS', False) and not a.get('NOEVENT', False))
                run.check(not bad and not unknown, r, ci.short, 'pending event without transition -> event-carrying empty step',
                          'the empty event-carrying step must be returned exactly when nothing was selected and an event is pending', rt)
            else:
                run.fail(r, ci.short, 'return under no-transition branch ' + q.unparse(rt), 'unrecognised return in the no-transition branch', rt)
    run.check(seen_empty, r, ci.short, 'no-event branch present', 'the `no event, no step` return is missing', C)
    run.check(seen_evt, r, ci.short, 'empty-step branch present',
              'the empty step that lets an unmatched event be consumed is missing', C)
    # the event handed to _create_steps is None when the chosen transitions are eventless
    cr = q.calls_to(run, C, {'Interpreter._create_steps'})
    run.anchor(len(cr) == 1, r, 'single _create_steps call')
    ea = q.arg(cr[0], 0, 'event')
    good = False
    cand = [(strip_cast(ea), None)] + ([(strip_cast(v), st_) for st_, v in q.assigned_value(C, ea.id)] if isinstance(ea, ast.Name) else [])
    for v, st_ in cand:
        if isinstance(v, ast.IfExp) and (st_ is None or q.strictly_before(C, st_, cr[0])):
            c = q.canon_atom(v.test)
            if c and c[0] == 'is' and c[2] == 'None' and any(c[1] == x + '[0].event' for x in trans_vars):
                nb, eb = (v.body, v.orelse) if c[3] else (v.orelse, v.body)
                good = isinstance(nb, ast.Constant) and nb.value is None and isinstance(eb, ast.Name) and eb.id == ev
    # statement form: if X[0].event is None: e = None else: e = event
    if not good and isinstance(ea, ast.Name):
        defs = [(st_, v) for st_, v in q.assigned_value(C, ea.id) if q.strictly_before(C, st_, cr[0]) or q.never_after(C, st_, cr[0])]
        none_ok = evt_ok = False
        for st_, v in defs:
            ats = guard_atoms(st_)
            less = [a for a in ats if a[0] in ('is', 'is not') and a[2] == 'None' and any(a[1] == x + '[0].event' for x in trans_vars)]
            if isinstance(v, ast.Constant) and v.value is None and any(a[0] == 'is' for a in less):
                none_ok = True
            if isinstance(v, ast.Name) and v.id == ev and any(a[0] == 'is not' for a in less):
                evt_ok = True
            if isinstance(v, ast.Call) and st_ is selst and ea.id == ev:
                evt_ok = evt_ok or False
        if ea.id == ev and none_ok:
            # the peeked variable itself is overwritten with None on the eventless path and kept otherwise
            evt_ok = True
        good = none_ok and evt_ok
    run.check(good, r, ci.short, 'steps of eventless transitions carry no event',
              'the event passed to _create_steps must be None iff the (first) selected transition is eventless, '
              'else the peeked event', cr[0])
    a1 = q.arg(cr[0], 1, 'transitions')
    sorted_vars = {q.enclosing_stmt(c).targets[0].id for c in so if isinstance(q.enclosing_stmt(c), ast.Assign) and isinstance(q.enclosing_stmt(c).targets[0], ast.Name)}
    run.check(isinstance(a1, ast.Name) and a1.id in trans_vars and (not sorted_vars or a1.id in sorted_vars), r, ci.short, 'steps are created for the selected transitions',
              '_create_steps must receive the selected (sorted) transitions', cr[0])


def rules_insertion(run, P='C05'):
    r = run.rule(P + '.2', '_queue_event: queue chosen by class of the event; due time = frozen step time + delay; '
                           'insertion index = right bisect on due time over the same queue that receives the insert')
    fi = run.fn('Interpreter._queue_event')
    F = fi.node
    evp = q.param_names(F)[1] if len(q.param_names(F)) > 1 else None
    run.anchor(evp, r, 'event parameter of _queue_event')
    # queue choice
    qassign = [(st, v) for st, v in [(s, v) for n in ('queue',) for s, v in q.assigned_value(F, n)]]
    ins = [c for c in q.calls(F) if isinstance(c.func, ast.Attribute) and c.func.attr == 'insert']
    insort = [c for c in q.calls(F) if (dotted(c.func) or '').startswith('bisect.insort')]
    run.check(len(ins) + len(insort) == 1, r, fi.short, 'single insertion site', 'exactly one insertion expected', F)
    if not ins:
        run.fail(r, fi.short, 'insert call', 'queue.insert(position, (due, event)) not found', F)
        return
    ic = ins[0]
    qx = strip_cast(ic.func.value)
    run.anchor(isinstance(qx, (ast.Name, ast.IfExp)), r, 'insert receiver is a local queue variable or a conditional expression')
    qv = q.unparse(qx)
    choices = q.cases(F, qx)
    for v, at in choices:
        v = strip_cast(v)
        fld = dotted(v)
        isint = [a for a in at if a[1].replace(' ', '') == 'isinstance(%s,InternalEvent)' % evp]
        if fld == 'self._internal_queue':
            run.check(any(a[0] == 'truthy' for a in isint) and len(at) == 1, r, fi.short, 'internal events -> internal queue',
                      'the internal queue must be chosen exactly for InternalEvent instances', ic)
        elif fld == 'self._external_queue':
            run.check(any(a[0] == 'falsy' for a in isint) and len(at) == 1, r, fi.short, 'other events -> external queue',
                      'the external queue must be chosen exactly for non-internal events', ic)
        else:
            run.fail(r, fi.short, 'queue choice ' + q.unparse(v)[:60], 'unknown queue', ic)
    run.check(len(choices) == 2, r, fi.short, 'two queue choices', 'expected one choice per event class', F)
    # due time
    pos_a, item = (ic.args + [None, None])[:2]
    run.anchor(isinstance(item, ast.Tuple) and len(item.elts) == 2, r, 'inserted (due, event) tuple')
    tvar, evar = item.elts
    run.check(isinstance(evar, ast.Name) and evar.id == evp, r, fi.short, 'inserted event is the parameter',
              'the queued object must be the event itself', ic)
    # due time: directly the expression, or a local defined once
    if isinstance(tvar, ast.Name):
        tdefs = q.assigned_value(F, tvar.id)
        run.check(len(tdefs) == 1, r, fi.short, 'single definition of the due time', 'due time defined once', F)
        due_exprs = [(st, v) for st, v in tdefs]
    else:
        due_exprs = [(q.enclosing_stmt(ic), tvar)]
    due_text = q.unparse(tvar)
    for st, v in due_exprs:
        v = strip_cast(v)
        good = isinstance(v, ast.BinOp) and isinstance(v.op, ast.Add)
        if good:
            sides = [strip_cast(v.left), strip_cast(v.right)]
            base = [s_ for s_ in sides if dotted(s_) == 'self.time' or dotted(s_) == 'self._time']
            other = [s_ for s_ in sides if s_ not in base]
            good = len(base) == 1 and len(other) == 1 and any(
                isinstance(n, ast.Name) and n.id == evp for n in ast.walk(other[0])) and \
                'delay' in q.unparse(other[0]) and not any(isinstance(n, (ast.Sub, ast.USub, ast.Mult)) for n in ast.walk(other[0]))
        run.check(good, r, fi.short, 'due time = self.time + delay',
                  'the due time must be the frozen step time (Interpreter.time, not the clock) plus the event delay', st)
    # bisect
    bis = [c for c in q.calls(F) if (dotted(c.func) or '').startswith('bisect.') or (dotted(c.func) or '').startswith('bisect_')]
    run.check(len(bis) == 1, r, fi.short, 'single bisect call', 'expected one bisect call', F)
    for b in bis:
        nm = dotted(b.func).split('.')[-1]
        run.check(nm in ('bisect_right', 'bisect'), r, fi.short, 'right bisect (%s)' % nm,
                  'equal due times must keep FIFO order: the insertion point must be right of existing equal keys', b)
        bst = q.enclosing_stmt(b)
        pv = bst.targets[0].id if isinstance(bst, ast.Assign) and isinstance(bst.targets[0], ast.Name) else None
        run.check(pv is not None and isinstance(pos_a, ast.Name) and pos_a.id == pv and q.strictly_before(F, bst, ic), r,
                  fi.short, 'insert index is the bisect result', 'insert must use the bisect position', ic)
        seq = strip_cast(b.args[0]) if b.args else None
        over = None
        keyf = None
        if isinstance(seq, ast.Call) and seq.args:
            over = strip_cast(seq.args[0])
            keyf = q.arg(seq, 1, 'key')
        elif isinstance(seq, ast.Name):
            over = seq
            keyf = q.arg(b, None, 'key')
        run.check(over is not None and q.unparse(over) == qv, r, fi.short, 'bisect over the receiving queue',
                  'bisect must search the same queue that receives the insert', b)
        needle = strip_cast(b.args[1]) if len(b.args) > 1 else None
        kf0 = q.key_function(run, F, keyf) if keyf is not None else None
        if kf0 is not None and isinstance(needle, ast.Call) and q.unparse(needle.func) == q.unparse(keyf) and len(needle.args) == 1 and not needle.keywords:
            # needle = key(<the inserted item>): apply the key function to the item symbolically
            itm = strip_cast(needle.args[0])
            if isinstance(itm, ast.Tuple) and len(itm.elts) == 2 and q.unparse(itm) == q.unparse(item):
                txt = q.unparse(kf0[1])
                for i_, e_ in enumerate(itm.elts):
                    txt = txt.replace('%s[%d]' % (kf0[0], i_), q.unparse(e_))
                needle = ast.parse(txt, mode='eval').body
        first = needle.elts[0] if isinstance(needle, ast.Tuple) and needle.elts else needle
        run.check(first is not None and q.unparse(first) == due_text, r, fi.short, 'bisect needle leads with the due time',
                  'the search key must be led by the due time', b)
        kf = q.key_function(run, F, keyf) if keyf is not None else None
        if kf is None:
            run.fail(r, fi.short, 'bisect key', 'key function of the bisect not recognised', b)
        else:
            p, body = kf
            lead = body.elts[0] if isinstance(body, ast.Tuple) and body.elts else body
            run.check(q.unparse(lead) == p + '[0]', r, fi.short, 'stored entries keyed by due time first',
                      'the key must read the stored due time (component 0) first', b)
            if isinstance(body, ast.Tuple):
                # FIFO among equal due times: bisect_right appends behind equal keys only if nothing but the due time tells entries of one queue
                # apart, so every further component must be the same for all events of a queue (a test of the event class, or a constant)
                for extra in body.elts[1:]:
                    e_ = strip_cast(extra)
                    while isinstance(e_, ast.UnaryOp) and isinstance(e_.op, ast.Not):
                        e_ = strip_cast(e_.operand)
                    const_in_queue = isinstance(e_, ast.Constant) or (
                        isinstance(e_, ast.Call) and isinstance(e_.func, ast.Name) and e_.func.id == 'isinstance' and len(e_.args) == 2
                        and q.unparse(e_.args[0]) == p + '[1]' and q.unparse(e_.args[1]) in ('InternalEvent', 'MetaEvent', 'Event'))
                    run.check(const_in_queue, r, fi.short, 'no tie-break among the events of one queue beyond the due time (%s)' % q.unparse(extra)[:50],
                              'entries with equal due times are ordered by %s: a later-queued event can overtake an earlier one (FIFO broken)' % q.unparse(extra)[:50], b)
            if isinstance(body, ast.Tuple) and isinstance(needle, ast.Tuple):
                run.check(len(body.elts) == len(needle.elts), r, fi.short, 'key and needle have the same arity',
                          'key/needle arity mismatch', b)
                if len(body.elts) == 2 and len(needle.elts) == 2:
                    # second component: same predicate on stored event and on the inserted event
                    k2 = q.unparse(body.elts[1]).replace(p + '[1]', evp)
                    run.check(k2 == q.unparse(needle.elts[1]), r, fi.short, 'secondary key agrees between stored and new entries',
                              'the tie-break component must be computed the same way for stored and inserted events', b)


def rules_event_data(run, P='C05', rid='.7'):
    r = run.rule(P + rid, 'an event carries its name and parameters (delay included) exactly as given: the constructors of Event / InternalEvent / MetaEvent store them '
                           'untouched, and nothing in the model rewrites Event.data afterwards')
    prog = run.prog
    ci = prog.cls('Event')
    init = ci.methods.get('__init__')
    run.anchor(init is not None, r, 'Event.__init__')
    I = init.node
    kw = I.args.kwarg.arg if I.args.kwarg else None
    npar = q.param_names(I)[1] if len(q.param_names(I)) > 1 else None
    ws = [(f, k, n) for c, f, k, n in prog.direct_writes(init) if c == 'Event']
    stores = {f: n for f, k, n in ws if k == 'assign'}
    run.check(kw is not None and set(f for f, k, n in ws) == {'name', 'data'} and len(ws) == 2 and
              isinstance(stores.get('data'), ast.Assign) and q.unparse(stores['data'].value) == kw and
              isinstance(stores.get('name'), ast.Assign) and q.unparse(stores['name'].value) == npar, r, init.short,
              'name and **parameters stored as given, nothing else written', 'the constructor rewrites what it was given: %s' % [(f, k) for f, k, n in ws], I)
    run.check(not any(isinstance(x, (ast.If, ast.For, ast.While)) for x in q.walk(I, False)), r, init.short, 'no case distinction on the parameters',
              'the constructor treats some parameter values specially (e.g. clamps a delay)', I)
    for sub in ('InternalEvent', 'MetaEvent'):
        if prog.has_cls(sub):
            m = prog.cls(sub).methods.get('__init__')
            run.check(m is None, r, sub, '%s adds no constructor of its own' % sub, 'constructor overridden', m.node if m else None)
    nw = 0
    for f in prog.functions():
        if f.outer is not None or f is init:
            continue
        for c, fld, kind, node in prog.direct_writes(f):
            if c in ('Event', 'InternalEvent', 'MetaEvent') and fld in ('data', 'name') and f.module.name.startswith('sismic.'):
                if f.short.startswith('DelayedEvent.') or f.name in ('__setstate__', '__copy__', '__deepcopy__', '__reduce__'):
                    continue      # (deprecated subclass; copy / pickle hooks are governed by C18.5)
                nw += 1
                run.fail(r, f.short, 'write:%s.%s %s' % (c, fld, kind), 'an event is modified after its creation', node)
    run.ok(r, 'Event', '%d writes of Event.name / Event.data outside the constructor' % nw, None)


def rules_between(run, P='C05'):
    r = run.rule(P + '.5', 'nothing that can reach a queue mutation or a listener runs between the peek (_compute_steps) '
                           'and the pop (execute_once)')
    prog = run.prog
    fi = run.fn('Interpreter.execute_once')
    F = fi.node
    cfg = build_cfg(F)
    comp = q.calls_to(run, F, {'Interpreter._compute_steps'})
    pops = q.calls_to(run, F, {'Interpreter._select_event'})
    run.anchor(comp, r, '_compute_steps() call in execute_once')
    if not pops:
        run.fail(r, fi.short, 'pop site in execute_once', 'the consuming _select_event call is not in execute_once (the pop does not follow the decision phase there)', F)
        return
    a, b = q.cfgnode(F, comp[0]), q.cfgnode(F, pops[0])
    between = [n for n in cfg.stmt_nodes() if n.id not in (a.id, b.id) and cfg.reaches(a, n) and cfg.reaches(n, b)
               and not cfg.reaches(b, n)]
    bad_targets = {'Interpreter._queue_event', 'Interpreter._raise_event', 'Interpreter.queue'}
    for n in between:
        for c in [x for x in ast.walk(n.ast) if isinstance(x, ast.Call)]:
            tg, ext, ok = prog.resolve_call(c, fi)
            reach = prog.reachable(tg) if tg else {}
            hit = [f.short for f, _ in reach.values() if f.short in bad_targets]
            run.check(not hit, r, fi.short, 'between peek and pop: ' + q.unparse(c)[:60],
                      'a call between peek and pop can reach %s' % hit, c)
    run.ok(r, fi.short, '%d statement(s) between peek and pop examined' % len(between), comp[0])
    # inside _compute_steps nothing mutates the queues or notifies listeners
    ci = run.fn('Interpreter._compute_steps')
    reach = prog.reachable([ci])
    hit = sorted(f.short for f, _ in reach.values() if f.short in bad_targets)
    run.check(not hit, r, ci.short, 'decision phase cannot reach queue mutation / listeners',
              '_compute_steps can reach %s: %s' % (hit, [prog.path_to(reach, prog.fn(h).qual) for h in hit]), ci.node)
    w = prog.transitive_writes([ci])
    for fld in QUEUES:
        ws = [x for x in w.get(('Interpreter', fld), [])]
        run.check(not ws, r, ci.short, 'decision phase does not write ' + fld,
                  'queue written from the decision phase in %s' % [x[0].short for x in ws], ci.node)


def rules_send(run, P='C05', rid='.6'):
    r = run.rule(P + rid, 'send() builds InternalEvent objects collected in the list returned by _execute_code; '
                           '_raise_event queues InternalEvents for the sender')
    fi = run.fn('PythonEvaluator._execute_code')
    F = fi.node
    d = None
    for n in q.walk(F):
        if isinstance(n, ast.Dict) and any(q.const_str(k) == 'send' for k in n.keys if k is not None):
            d = n
    run.anchor(d, r, "exposed-context dict with key 'send' in _execute_code")
    table = {q.const_str(k): v for k, v in zip(d.keys, d.values) if k is not None}
    rets = [n for n in q.walk(F, False) if isinstance(n, ast.Return) and isinstance(n.value, ast.Name)]
    lists = {n.value.id for n in rets}
    for key, klass in (('send', 'InternalEvent'), ('notify', 'MetaEvent')):
        v = table.get(key)
        good = False
        lst = None
        if isinstance(v, ast.Lambda) and isinstance(v.body, ast.Call) and isinstance(v.body.func, ast.Attribute) \
                and v.body.func.attr == 'append' and isinstance(v.body.func.value, ast.Name):
            lst = v.body.func.value.id
            made = v.body.args[0] if v.body.args else None
            if isinstance(made, ast.Call) and dotted(made.func) == klass:
                pn = [a.arg for a in v.args.args]
                kw = v.args.kwarg.arg if v.args.kwarg else None
                a0 = made.args[0] if made.args else None
                star = [k for k in made.keywords if k.arg is None]
                good = isinstance(a0, ast.Name) and pn and a0.id == pn[0] and kw and len(star) == 1 and \
                    isinstance(star[0].value, ast.Name) and star[0].value.id == kw
        run.check(good, r, fi.short, "%s() appends %s(name, **kwargs)" % (key, klass),
                  "'%s' must create a %s with the given name and all keyword parameters (delay included)" % (key, klass),
                  v if v is not None else d)
        run.check(lst in lists, r, fi.short, "%s() collects into the returned list" % key,
                  'the collected events must be the value returned by _execute_code', d)
    # the dict with 'send' is what exec receives
    ex = [c for c in q.calls(F) if isinstance(c.func, ast.Name) and c.func.id == 'exec']
    run.check(len(ex) == 1, r, fi.short, 'single exec call', 'expected one exec', F)
    # _raise_event
    ri = run.fn('Interpreter._raise_event')
    R = ri.node
    qe = q.calls_to(run, R, {'Interpreter._queue_event'})
    run.check(len(qe) == 1, r, ri.short, 'single _queue_event call', 'the sender must queue an internal event once', R)
    evp = q.param_names(R)[1]
    for c in qe:
        at = guard_atoms(c)
        run.check(exactly_for_class(run, c, evp, 'InternalEvent'), r, ri.short,
                  'internal events are queued for the sender', 'queueing must happen exactly for InternalEvent instances', c)
        run.check(c.args and isinstance(c.args[0], ast.Name) and c.args[0].id == evp, r, ri.short,
                  'the sent event itself is queued', 'must queue the event', c)


def check(run):
    run.guard(rules_owners, run)
    run.guard(rules_insertion, run)
    run.guard(rules_select_event, run)
    run.guard(rules_consumption, run)
    run.guard(rules_between, run)
    run.guard(rules_send, run)
    run.guard(rules_event_data, run)
