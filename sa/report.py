"""Findings, obligations, known-findings filter, evidence JSON, exit codes, replay files."""
import ast
import hashlib
import json
import os
import time

from .loader import AnalysisError, Tree
from .prog import Program

VERIF = os.path.dirname(os.path.dirname(os.path.abspath(__file__)))
KNOWN = os.path.join(VERIF, 'known_findings.json')

ASSUMPTIONS = [
    'A1 CPython semantics of the statement kinds used in sismic/; no monkey-patching of analysed classes '
    '(helpers.log_trace is a forwarding wrapper)',
    'A2 user code embedded in statecharts does not re-enter the interpreter API; guard/contract expressions are '
    'side-effect free',
    'A3 third-party behaviour (ruamel.yaml, schema, behave, threading.Event, bisect) is trusted as documented',
    'A4 own resolver: field types from annotations/constructor assignments plus the supplement table in sa/prog.py',
]


def where(node):
    mod = getattr(node, '_mod', None)
    return '%s:%s' % (mod.relpath if mod else '?', getattr(node, 'lineno', '?'))


def norm(node_or_str, limit=90):
    s = node_or_str if isinstance(node_or_str, str) else ast.unparse(node_or_str)
    s = ' '.join(s.split())
    return s[:limit]


class Finding:
    def __init__(self, prop, rule, func, instance, msg, node=None):
        self.prop = prop
        self.rule = rule
        self.func = func
        self.instance = instance
        self.msg = msg
        self.where = where(node) if node is not None else '?'
        self.key = '%s|%s|%s' % (rule, func, instance)

    def as_dict(self):
        return {'property': self.prop, 'rule': self.rule, 'function': self.func, 'instance': self.instance,
                'key': self.key, 'where': self.where, 'message': self.msg}


class Run:
    """One evaluation of the rules of one property on one tree."""

    def __init__(self, prop, tree=None, prog=None):
        self.prop = prop
        self.tree = tree or Tree()
        self.prog = prog or Program(self.tree)
        self.findings = []
        self.obligations = []   # dicts: rule, site, construct, verdict
        self.rules = {}         # rule id -> text
        self.notes = []
        self._cur = None
        self.analysis_errors = []

    def guard(self, fn, *args, **kw):
        """Run one group of rules; an AnalysisError inside it is recorded and the other groups still run."""
        try:
            return fn(*args, **kw)
        except AnalysisError as e:
            self.analysis_errors.append(str(e))
            return None

    # -- rule bookkeeping
    def rule(self, rid, text):
        self.rules[rid] = text
        self._cur = rid
        return rid

    def ok(self, rule, func, construct, node=None):
        self.obligations.append({'rule': rule, 'site': '%s (%s)' % (func, where(node) if node is not None else '-'),
                                 'construct': norm(construct), 'verdict': 'discharged'})

    def fail(self, rule, func, instance, msg, node=None):
        f = Finding(self.prop, rule, func, instance, msg, node)
        if any(x.key == f.key for x in self.findings):
            return f
        self.findings.append(f)
        self.obligations.append({'rule': rule, 'site': '%s (%s)' % (func, f.where), 'construct': norm(instance),
                                 'verdict': 'VIOLATED: ' + msg})
        return f

    def check(self, cond, rule, func, instance, msg, node=None):
        """An obligation: discharged when cond holds, otherwise a finding keyed by `instance`."""
        if cond:
            self.ok(rule, func, instance, node)
        else:
            self.fail(rule, func, instance, msg, node)
        return bool(cond)

    def anchor(self, value, rule, what):
        """An anchor the rule needs in order to decide; its absence is an analysis error (exit 2)."""
        if not value:
            raise AnalysisError('%s: anchor not found: %s' % (rule, what))
        return value

    def floor(self, n, minimum, rule, what):
        if n < minimum:
            raise AnalysisError('%s: only %d instances of %s (floor %d): recogniser went blind' %
                                (rule, n, what, minimum))

    def note(self, text):
        self.notes.append(text)

    def fn(self, short):
        return self.prog.fn(short)


def load_known():
    if not os.path.exists(KNOWN):
        return []
    with open(KNOWN) as f:
        return json.load(f).get('findings', [])


def finish(prop, run, tier, seed, t0, explanation, selftest=None, out=print, write=True):
    """Apply the known-findings filter, write evidence and replay files, return the exit code."""
    known = [k for k in load_known() if k.get('property') == prop and k.get('status') == 'known']
    known_keys = {k['key']: k for k in known}
    new = [f for f in run.findings if f.key not in known_keys]
    listed = [f for f in run.findings if f.key in known_keys]
    for f in listed:
        out('KNOWN-FINDING: property=%s %s [%s at %s]' % (prop, known_keys[f.key]['what'], f.rule, f.where))
    code = 0
    replays = []
    if new:
        code = 1
        os.makedirs(os.path.join(VERIF, 'evidence', 'replay'), exist_ok=True)
        for f in new:
            dig = hashlib.sha256(f.key.encode()).hexdigest()[:10]
            path = os.path.join(VERIF, 'evidence', 'replay', '%s-%s-%s.json' % (prop, f.rule, dig))
            if write:
                with open(path, 'w') as fh:
                    json.dump({'property': prop, 'rule': f.rule, 'key': f.key, 'finding': f.as_dict(),
                               'rule_text': run.rules.get(f.rule, ''), 'tree_digest': run.tree.digest,
                               'replay': './check %s --replay %s' % (prop, path)}, fh, indent=1)
            out('%s  %s  %s :: %s  -- %s' % (f.where, f.rule, f.func, f.instance, f.msg))
            out('VIOLATION property=%s replay=%s' % (prop, path))
            replays.append(path)
    distinct = len({(o['rule'], o['site'], o['construct']) for o in run.obligations})
    discharged = sum(1 for o in run.obligations if o['verdict'] == 'discharged')
    prog = run.prog
    prog.build_callgraph()
    cov = {
        'explanation': explanation,
        'rules': run.rules,
        'evaluations': len(run.obligations),
        'distinct_nontrivial': distinct,
        'rule': 'one evaluation per (rule, code site, construct) obligation found in /repo on this run; an obligation is '
                'non-trivial when it names a concrete construct of the analysed source (all do); distinct = distinct '
                '(rule, site, construct) triples',
        'obligations': len(run.obligations),
        'discharged': discharged,
        'samples': run.obligations[:400],
        'findings': [f.as_dict() for f in run.findings],
        'known_findings_listed': [f.key for f in listed],
        'modules_parsed': len(run.tree.modules),
        'functions_analysed': len(prog.funcs),
        'call_sites': prog.cg_stats['call_sites'],
        'call_sites_resolved_internal': prog.cg_stats['resolved_internal'],
        'call_sites_external': prog.cg_stats['external'],
        'call_sites_unresolved': prog.cg_stats['unresolved'],
        'tree_digest': run.tree.digest,
        'notes': run.notes,
        'analysis_errors': list(getattr(run, 'analysis_errors', [])),
        'helpers_inlined': sorted(h for m in run.tree.modules.values() for h in getattr(m, 'inlined', [])),
        'explanatory_locals_substituted': sum(getattr(m, 'substituted', 0) for m in run.tree.modules.values()),
        'checker_cmd': './check %s --tier %s' % (prop, tier),
        'trusted_base': ASSUMPTIONS,
        'exhaustive': False,
    }
    if selftest is not None:
        cov['selftest'] = selftest
    ev = {
        'property_id': prop, 'tier': tier, 'seed': seed, 'level': 'other',
        'coverage': cov, 'assumptions': ASSUMPTIONS, 'wall_s': round(time.time() - t0, 3),
        'violations': len(new),
    }
    if write:
        os.makedirs(os.path.join(VERIF, 'evidence'), exist_ok=True)
        with open(os.path.join(VERIF, 'evidence', prop + '.json'), 'w') as fh:
            json.dump(ev, fh, indent=1, default=str)
    return code
