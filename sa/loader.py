"""Working tree -> {module: ast}. Re-reads /repo on every run; accepts in-memory overlays."""
import ast
import hashlib
import os

REPO = os.environ.get('VERIF_REPO', '/repo')
PKG = 'sismic'


class AnalysisError(Exception):
    """An anchor could not be found / resolved: the analysis cannot decide (exit 2)."""


class Module:
    def __init__(self, name, path, relpath, src):
        self.name = name
        self.path = path
        self.relpath = relpath
        self.src = src
        try:
            self.tree = ast.parse(src, filename=path)
        except SyntaxError as e:
            raise AnalysisError('module %s does not parse: %s' % (relpath, e))
        from .inline import inline_new_helpers, known_functions
        self.folded = 0
        if os.environ.get('VERIF_NO_NORMALIZE') != '1':
            from .partial import partial_eval_module
            self.folded += partial_eval_module(self.tree)      # tables looked up, table loops unrolled: helpers become inlinable
        self.inlined = inline_new_helpers(self.tree, name, known_functions())
        from .normalize import normalize_module
        self.substituted = 0
        if os.environ.get('VERIF_NO_NORMALIZE') != '1':
            from .partial import partial_eval_module
            for _round in range(3):
                self.substituted += normalize_module(self.tree)
                n_pe = partial_eval_module(self.tree)
                self.folded += n_pe
                from .inline import local_functions_pass
                n_lf = local_functions_pass(self.tree) if known_functions() is not None else []
                if n_pe:
                    n_lf = n_lf + inline_new_helpers(self.tree, name, known_functions())      # helpers that became plain calls through unrolling
                self.inlined += n_lf
                if not n_pe and not n_lf:
                    break
        # (context and operator nodes are singletons shared by every tree of the process: they never get a parent)
        shared = (ast.expr_context, ast.operator, ast.boolop, ast.unaryop, ast.cmpop)
        for node in ast.walk(self.tree):
            for child in ast.iter_child_nodes(node):
                if not isinstance(child, shared):
                    child._parent = node
        self.tree._parent = None
        for node in ast.walk(self.tree):
            if not isinstance(node, shared):
                node._mod = self


class Tree:
    """All python modules under <root>/sismic plus the documentation texts the rules consult."""

    def __init__(self, root=None, overlay=None):
        self.root = root or REPO
        self.overlay = dict(overlay or {})
        self.modules = {}
        self.texts = {}
        h = hashlib.sha256()
        pkgdir = os.path.join(self.root, PKG)
        if not os.path.isdir(pkgdir):
            raise AnalysisError('package directory %s not found' % pkgdir)
        for dirpath, dirnames, filenames in sorted(os.walk(pkgdir)):
            dirnames.sort()
            for fn in sorted(filenames):
                if not fn.endswith('.py'):
                    continue
                path = os.path.join(dirpath, fn)
                rel = os.path.relpath(path, self.root)
                src = self._read(rel, path)
                h.update(rel.encode() + b'\0' + src.encode() + b'\0')
                name = rel[:-3].replace(os.sep, '.')
                if name.endswith('.__init__'):
                    name = name[:-len('.__init__')]
                self.modules[name] = Module(name, path, rel, src)
        for rel in self.overlay:
            if rel.endswith('.py') and rel.startswith(PKG + '/') and \
                    rel[:-3].replace('/', '.').replace('.__init__', '') not in self.modules:
                name = rel[:-3].replace('/', '.')
                self.modules[name] = Module(name, os.path.join(self.root, rel), rel, self.overlay[rel])
        self.digest = h.hexdigest()[:16]

    def _read(self, rel, path):
        if rel in self.overlay:
            return self.overlay[rel]
        with open(path, encoding='utf-8') as f:
            return f.read()

    def text(self, rel):
        """Read a non-python file (docs) of the working tree; '' if it does not exist."""
        if rel not in self.texts:
            path = os.path.join(self.root, rel)
            if rel in self.overlay:
                self.texts[rel] = self.overlay[rel]
            elif os.path.exists(path):
                with open(path, encoding='utf-8') as f:
                    self.texts[rel] = f.read()
            else:
                self.texts[rel] = ''
        return self.texts[rel]

    def glob_texts(self, subdir, suffix):
        out = {}
        base = os.path.join(self.root, subdir)
        for dirpath, dirnames, filenames in sorted(os.walk(base)):
            dirnames.sort()
            for fn in sorted(filenames):
                if fn.endswith(suffix):
                    rel = os.path.relpath(os.path.join(dirpath, fn), self.root)
                    out[rel] = self.text(rel)
        return out
