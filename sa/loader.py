"""Working tree -> {module: ast}. Re-reads /repo on every run; accepts in-memory overlays."""
import ast
import hashlib
import os

REPO = os.environ.get('VERIF_REPO', '/repo')
PKG = 'sismic'


class AnalysisError(Exception):
    """An anchor could not be found / resolved: the analysis cannot decide (exit 2)."""


PARAMS = os.path.join(os.path.dirname(os.path.abspath(__file__)), 'params.txt')
_known_params = None


def known_params():
    """{qualified function name: set of parameter names} of the reference tree (sa/params.txt), or None when the file is missing."""
    global _known_params
    if _known_params is None:
        if not os.path.exists(PARAMS):
            return None
        out = {}
        with open(PARAMS) as f:
            for l in f:
                l = l.strip()
                if not l or l.startswith('#') or '(' not in l:
                    continue
                name, rest = l.split('(', 1)
                out[name] = {x.lstrip('*') for x in rest.rstrip(')').split(',') if x}
        _known_params = out
    return _known_params


def call_usage(sources):
    """Which keywords / how many positional arguments the calls written in the package pass, per simple callee name:
    {name: {'kw': set, 'pos': max count, 'star': bool, 'value': bool (referenced other than as the function of a call)}}."""
    use = {}

    def slot(n):
        return use.setdefault(n, {'kw': set(), 'pos': 0, 'star': False, 'value': False})
    for src in sources:
        try:
            t = ast.parse(src)
        except SyntaxError:
            continue
        funcs = set()
        for n in ast.walk(t):
            if isinstance(n, ast.Call):
                f = n.func
                nm = f.id if isinstance(f, ast.Name) else f.attr if isinstance(f, ast.Attribute) else None
                if nm is None:
                    continue
                funcs.add(id(f))
                u = slot(nm)
                u['kw'] |= {k.arg for k in n.keywords if k.arg}
                u['pos'] = max(u['pos'], len(n.args))
                if any(k.arg is None for k in n.keywords) or any(isinstance(a, ast.Starred) for a in n.args):
                    u['star'] = True
        for n in ast.walk(t):
            if isinstance(n, ast.Attribute) and isinstance(n.ctx, ast.Load) and id(n) not in funcs:
                slot(n.attr)['value'] = True
            elif isinstance(n, ast.Name) and isinstance(n.ctx, ast.Load) and id(n) not in funcs:
                slot(n.id)['value'] = True
    return use


def fold_new_params(tree, modname, usage):
    """A parameter that the reference tree does not have, with a constant default, that no call written in the package passes: the properties speak about
    today's API, so the function is analysed for the default value - `p = <default>` is placed at the head of the body (constant propagation and folding then
    remove what the option switches on). A changed default changes what is analysed; a parameter some call does pass is left alone."""
    kp = known_params()
    if kp is None or usage is None:
        return 0
    n_folded = 0

    def handle(fn, qual, is_method):
        nonlocal n_folded
        if qual not in kp:
            return
        a = fn.args
        pos = a.posonlyargs + a.args
        with_default = list(zip(pos[len(pos) - len(a.defaults):], a.defaults)) + [(p_, d_) for p_, d_ in zip(a.kwonlyargs, a.kw_defaults) if d_ is not None]
        u = usage.get(fn.name, {'kw': set(), 'pos': 0, 'star': False, 'value': False})
        head = []
        for p_, d_ in with_default:
            if p_.arg in kp[qual] or not isinstance(d_, ast.Constant) or not isinstance(d_.value, (bool, int, float, str, type(None))):
                continue
            if u['star'] or p_.arg in u['kw']:
                continue
            if p_ in pos:
                idx = pos.index(p_) - (1 if is_method else 0)
                if u['pos'] > idx:
                    continue
            head.append(ast.Assign(targets=[ast.Name(id=p_.arg, ctx=ast.Store())], value=ast.Constant(value=d_.value), lineno=fn.lineno, col_offset=fn.col_offset))
        if head:
            body = fn.body
            k = 1 if body and isinstance(body[0], ast.Expr) and isinstance(body[0].value, ast.Constant) and isinstance(body[0].value.value, str) else 0
            fn.body = body[:k] + head + body[k:]
            n_folded += len(head)
    for n in tree.body:
        if isinstance(n, ast.ClassDef):
            for m in n.body:
                if isinstance(m, ast.FunctionDef):
                    static = any(isinstance(d, ast.Name) and d.id == 'staticmethod' for d in m.decorator_list)
                    handle(m, '%s:%s.%s' % (modname, n.name, m.name), not static)
        elif isinstance(n, ast.FunctionDef):
            handle(n, '%s:%s' % (modname, n.name), False)
    if n_folded:
        ast.fix_missing_locations(tree)
    return n_folded


class Module:
    def __init__(self, name, path, relpath, src, usage=None):
        self.name = name
        self.path = path
        self.relpath = relpath
        self.src = src
        try:
            self.tree = ast.parse(src, filename=path)
        except SyntaxError as e:
            raise AnalysisError('module %s does not parse: %s' % (relpath, e))
        from .inline import inline_new_helpers, known_functions
        self.folded = 0
        if os.environ.get('VERIF_NO_NORMALIZE') != '1':
            self.folded += fold_new_params(self.tree, name, usage)
        if os.environ.get('VERIF_NO_NORMALIZE') != '1':
            from .partial import partial_eval_module
            self.folded += partial_eval_module(self.tree)      # tables looked up, table loops unrolled: helpers become inlinable
        self.inlined = inline_new_helpers(self.tree, name, known_functions())
        from .normalize import normalize_module
        self.substituted = 0
        if os.environ.get('VERIF_NO_NORMALIZE') != '1':
            from .partial import partial_eval_module
            for _round in range(3):
                self.substituted += normalize_module(self.tree)
                n_pe = partial_eval_module(self.tree)
                self.folded += n_pe
                from .inline import local_functions_pass
                n_lf = local_functions_pass(self.tree) if known_functions() is not None else []
                if n_pe:
                    n_lf = n_lf + inline_new_helpers(self.tree, name, known_functions())      # helpers that became plain calls through unrolling
                self.inlined += n_lf
                if not n_pe and not n_lf:
                    break
        # (context and operator nodes are singletons shared by every tree of the process: they never get a parent)
        shared = (ast.expr_context, ast.operator, ast.boolop, ast.unaryop, ast.cmpop)
        for node in ast.walk(self.tree):
            for child in ast.iter_child_nodes(node):
                if not isinstance(child, shared):
                    child._parent = node
        self.tree._parent = None
        for node in ast.walk(self.tree):
            if not isinstance(node, shared):
                node._mod = self


class Tree:
    """All python modules under <root>/sismic plus the documentation texts the rules consult."""

    def __init__(self, root=None, overlay=None):
        self.root = root or REPO
        self.overlay = dict(overlay or {})
        self.modules = {}
        self.texts = {}
        h = hashlib.sha256()
        pkgdir = os.path.join(self.root, PKG)
        if not os.path.isdir(pkgdir):
            raise AnalysisError('package directory %s not found' % pkgdir)
        found = []
        for dirpath, dirnames, filenames in sorted(os.walk(pkgdir)):
            dirnames.sort()
            for fn in sorted(filenames):
                if not fn.endswith('.py'):
                    continue
                path = os.path.join(dirpath, fn)
                rel = os.path.relpath(path, self.root)
                src = self._read(rel, path)
                h.update(rel.encode() + b'\0' + src.encode() + b'\0')
                name = rel[:-3].replace(os.sep, '.')
                if name.endswith('.__init__'):
                    name = name[:-len('.__init__')]
                found.append((name, path, rel, src))
        extra = [(rel[:-3].replace('/', '.'), os.path.join(self.root, rel), rel, self.overlay[rel]) for rel in self.overlay
                 if rel.endswith('.py') and rel.startswith(PKG + '/') and rel[:-3].replace('/', '.').replace('.__init__', '') not in {f_[0] for f_ in found}]
        usage = call_usage([f_[3] for f_ in found + extra])
        for name, path, rel, src in found + extra:
            self.modules[name] = Module(name, path, rel, src, usage)
        self.digest = h.hexdigest()[:16]

    def _read(self, rel, path):
        if rel in self.overlay:
            return self.overlay[rel]
        with open(path, encoding='utf-8') as f:
            return f.read()

    def text(self, rel):
        """Read a non-python file (docs) of the working tree; '' if it does not exist."""
        if rel not in self.texts:
            path = os.path.join(self.root, rel)
            if rel in self.overlay:
                self.texts[rel] = self.overlay[rel]
            elif os.path.exists(path):
                with open(path, encoding='utf-8') as f:
                    self.texts[rel] = f.read()
            else:
                self.texts[rel] = ''
        return self.texts[rel]

    def glob_texts(self, subdir, suffix):
        out = {}
        base = os.path.join(self.root, subdir)
        for dirpath, dirnames, filenames in sorted(os.walk(base)):
            dirnames.sort()
            for fn in sorted(filenames):
                if fn.endswith(suffix):
                    rel = os.path.relpath(os.path.join(dirpath, fn), self.root)
                    out[rel] = self.text(rel)
        return out
