"""Normal form, third part: a small partial evaluator for table-driven code.

A refactoring often replaces a chain of similar statements by a loop over a constant table (`for key, attr in (('before', 'preconditions'), ..)`,
`getattr(obj, attr)`, `_TABLE[kind]`). The rules speak about the unrolled statements, so after inlining and forward substitution:
  * module-level tables (a name bound once, at module level, to a display of constants / tuples / dicts of constants and global names, never stored
    to or mutated) are looked up statically: `TABLE['k']`, `TABLE[0]`;
  * a `for` loop over a static display (written in place or through such a table) of at most 12 elements, without else clause, is unrolled:
    the body is repeated with the loop target bound to each element; a body of the form `if c: ..; break` becomes an if / elif chain; other loops
    containing break / continue are left alone;
  * `any(..)` / `all(..)` / list comprehensions over a static display are expanded to `or` / `and` / list displays;
  * `getattr(x, 'name')` with a constant identifier becomes `x.name`; conditional expressions and if statements with a constant test, `not <constant>`
    and comparisons between constants are folded; a tuple-unpacking assignment from a tuple display is split.
The result is only analysed, never executed."""
import ast
import copy

MUTATORS = {'append', 'extend', 'insert', 'remove', 'pop', 'clear', 'update', 'setdefault', 'sort', 'reverse', 'add', 'discard', 'popitem', '__setitem__'}
MAX_UNROLL = 12


def _static(node, local_names, depth=0):
    """A display whose shape is known statically: constants, global names / attribute chains, and tuples / lists / dicts of such."""
    if depth > 4:
        return False
    if isinstance(node, ast.Constant):
        return True
    if isinstance(node, ast.Name):
        return node.id not in local_names
    if isinstance(node, ast.Attribute):
        return _static(node.value, local_names, depth + 1)
    if isinstance(node, (ast.Tuple, ast.List)):
        return all(_static(e, local_names, depth + 1) for e in node.elts)
    if isinstance(node, ast.Dict):
        return all(k is not None and isinstance(k, ast.Constant) and _static(v, local_names, depth + 1) for k, v in zip(node.keys, node.values))
    return False


def module_tables(tree):
    cands = {}
    for st in tree.body:
        if isinstance(st, ast.Assign) and len(st.targets) == 1 and isinstance(st.targets[0], ast.Name) and isinstance(st.value, (ast.Tuple, ast.List, ast.Dict)) \
                and _static(st.value, set()):
            cands[st.targets[0].id] = cands.get(st.targets[0].id, []) + [st.value]
    out = {k: v[0] for k, v in cands.items() if len(v) == 1 and (v[0].elts if not isinstance(v[0], ast.Dict) else v[0].keys)}
    if not out:
        return out
    for n in ast.walk(tree):
        # any other binding or mutation disqualifies the table
        if isinstance(n, ast.Name) and n.id in out and isinstance(n.ctx, (ast.Store, ast.Del)):
            par_is_def = False
            for st in tree.body:
                if isinstance(st, ast.Assign) and st.targets[0] is n:
                    par_is_def = True
            if not par_is_def:
                out.pop(n.id, None)
        if isinstance(n, ast.Call) and isinstance(n.func, ast.Attribute) and n.func.attr in MUTATORS and isinstance(n.func.value, ast.Name) and n.func.value.id in out:
            out.pop(n.func.value.id, None)
        if isinstance(n, (ast.Subscript, ast.Attribute)) and isinstance(n.ctx, (ast.Store, ast.Del)) and isinstance(n.value, ast.Name) and n.value.id in out:
            out.pop(n.value.id, None)
        if isinstance(n, ast.Global) and any(x in out for x in n.names):
            for x in n.names:
                out.pop(x, None)
    return out


def _locals_of(fn):
    out = {a.arg for a in fn.args.posonlyargs + fn.args.args + fn.args.kwonlyargs}
    if fn.args.vararg:
        out.add(fn.args.vararg.arg)
    if fn.args.kwarg:
        out.add(fn.args.kwarg.arg)
    for n in ast.walk(fn):
        if isinstance(n, ast.Name) and isinstance(n.ctx, (ast.Store, ast.Del)):
            out.add(n.id)
        if isinstance(n, (ast.FunctionDef, ast.AsyncFunctionDef)) and n is not fn:
            out.add(n.name)
        if isinstance(n, ast.ExceptHandler) and n.name:
            out.add(n.name)
    return out


class _Subst(ast.NodeTransformer):
    """Substitutes names by expressions. `late`: what the names are bound to once the enclosing loop is over - closures (lambda bodies, nested
    functions) read their free variables when they are called, not when they are made, so a closure made in iteration i of an unrolled loop sees
    the value of the LAST iteration; default values of its parameters are evaluated when it is made. A lambda passed as key= is called at once."""

    def __init__(self, mapping, late=None):
        self.mapping = mapping
        self.late = late

    def visit_Name(self, node):
        if isinstance(node.ctx, ast.Load) and node.id in self.mapping:
            return copy.deepcopy(self.mapping[node.id])
        return node

    def visit_Call(self, node):
        for k in node.keywords:
            if k.arg == 'key' and isinstance(k.value, ast.Lambda):
                k.value._immediate = True
        return self.generic_visit(node)

    def _closure(self, node, params):
        if self.late is None or getattr(node, '_immediate', False):
            return self.generic_visit(node)
        a = node.args
        a.defaults = [self.visit(d) for d in a.defaults]
        a.kw_defaults = [self.visit(d) if d is not None else None for d in a.kw_defaults]
        inner = _Subst({k: v for k, v in self.late.items() if k not in params}, None)
        if isinstance(node, ast.Lambda):
            node.body = inner.visit(node.body)
        else:
            node.body = [inner.visit(s_) for s_ in node.body]
        return node

    def visit_Lambda(self, node):
        a = node.args
        return self._closure(node, {x.arg for x in a.args + a.kwonlyargs + a.posonlyargs} | ({a.vararg.arg} if a.vararg else set()) | ({a.kwarg.arg} if a.kwarg else set()))

    def visit_FunctionDef(self, node):
        a = node.args
        return self._closure(node, {x.arg for x in a.args + a.kwonlyargs + a.posonlyargs} | ({a.vararg.arg} if a.vararg else set()) | ({a.kwarg.arg} if a.kwarg else set()))


def _bind_target(target, elem):
    """{name: expr} for `target = elem` when target is a name or a (nested) tuple matched by a display of the same length; else None."""
    if isinstance(target, ast.Name):
        return {target.id: elem}
    if isinstance(target, (ast.Tuple, ast.List)) and isinstance(elem, (ast.Tuple, ast.List)) and len(target.elts) == len(elem.elts) \
            and not any(isinstance(t, ast.Starred) for t in target.elts):
        out = {}
        for t, e in zip(target.elts, elem.elts):
            b = _bind_target(t, e)
            if b is None:
                return None
            out.update(b)
        return out
    return None


def _assigned_in(stmts, names):
    for st in stmts:
        for n in ast.walk(st):
            if isinstance(n, ast.Name) and isinstance(n.ctx, (ast.Store, ast.Del)) and n.id in names:
                return True
    return False


LOG_METHODS = {'debug', 'info', 'warning', 'warn', 'error', 'exception', 'critical', 'log'}


def module_loggers(tree):
    """Module-level names bound to logging.getLogger(..), plus the name of the logging module itself."""
    out = set()
    for st in tree.body:
        if isinstance(st, ast.Import):
            out |= {(a.asname or a.name) for a in st.names if a.name == 'logging'}
        if isinstance(st, ast.Assign) and len(st.targets) == 1 and isinstance(st.targets[0], ast.Name) and isinstance(st.value, ast.Call) and \
                ast.unparse(st.value.func) in ('logging.getLogger', 'getLogger'):
            out.add(st.targets[0].id)
    return out


class _PE:
    loggers = frozenset()

    def __init__(self, fn, tables):
        self.fn = fn
        self.locals = _locals_of(fn)
        self.tables = {k: v for k, v in tables.items() if k not in self.locals}
        self.changed = 0

    def seq(self, node):
        """elements of a static display denoted by node (in place, or through a module table), else None"""
        if isinstance(node, ast.Name) and node.id in self.tables and isinstance(self.tables[node.id], (ast.Tuple, ast.List)):
            node = self.tables[node.id]
        if isinstance(node, (ast.Tuple, ast.List)) and 1 <= len(node.elts) <= MAX_UNROLL and _static(node, self.locals):
            return list(node.elts)
        # a display of attribute reads (`(self._states, self._parent)`) or bound methods, written in place
        if isinstance(node, (ast.Tuple, ast.List)) and 1 <= len(node.elts) <= MAX_UNROLL and getattr(self, 'allow_reads', None) is not None:
            roots = set()

            def chain(e):
                if isinstance(e, (ast.Tuple, ast.List)):      # rows of a table written in place: (label, self.field), ..
                    return bool(e.elts) and all(_static(x, self.locals) or chain(x) for x in e.elts)
                if not isinstance(e, ast.Attribute):
                    return False
                while isinstance(e, ast.Attribute):
                    e = e.value
                if isinstance(e, ast.Name):
                    roots.add(e.id)
                    return True
                return False
            if all(chain(e) for e in node.elts):
                if not _assigned_in(self.allow_reads, roots) and not any(
                        isinstance(x, ast.Attribute) and isinstance(x.ctx, (ast.Store, ast.Del)) and ast.dump(x)[:0] == '' and any(
                            ast.unparse(x) == ast.unparse(e) for e in node.elts) for s_ in self.allow_reads for x in ast.walk(s_)):
                    return list(node.elts)
        return None

    def dict_display(self, e):
        """the dict display `**e` stands for: written in place, or a local bound once to a display with constant string keys and never mutated"""
        if isinstance(e, ast.Name) and e.id in self.locals and getattr(self, 'cur', None):
            # the closest preceding statement of the same block that binds the name, with nothing in between touching it
            blk, idx = self.cur
            for prev in reversed(blk[:idx]):
                if isinstance(prev, ast.Assign) and len(prev.targets) == 1 and isinstance(prev.targets[0], ast.Name) and prev.targets[0].id == e.id:
                    d = self.dict_display(prev.value) if not isinstance(prev.value, ast.Name) else None
                    if d is not None:
                        return d
                    break
                if any(isinstance(n, ast.Name) and n.id == e.id for n in ast.walk(prev)):
                    break
        if isinstance(e, ast.Name) and e.id in self.locals:
            defs = [n for n in ast.walk(self.fn) if isinstance(n, ast.Assign) and any(isinstance(t, ast.Name) and t.id == e.id for t in n.targets)]
            stores = [n for n in ast.walk(self.fn) if isinstance(n, ast.Name) and n.id == e.id and isinstance(n.ctx, (ast.Store, ast.Del))]
            mutated = any(isinstance(n, ast.Call) and isinstance(n.func, ast.Attribute) and n.func.attr in MUTATORS and isinstance(n.func.value, ast.Name) and n.func.value.id == e.id
                          for n in ast.walk(self.fn)) or \
                any(isinstance(n, ast.Subscript) and isinstance(n.ctx, (ast.Store, ast.Del)) and isinstance(n.value, ast.Name) and n.value.id == e.id for n in ast.walk(self.fn))
            if len(defs) == 1 and len(stores) == 1 and not mutated:
                e = defs[0].value
            else:
                return None
        if isinstance(e, ast.Dict) and all(isinstance(k, ast.Constant) and isinstance(k.value, str) and k.value.isidentifier() for k in e.keys):
            return e
        if isinstance(e, ast.Call) and isinstance(e.func, ast.Name) and e.func.id == 'dict' and not e.args and all(k.arg for k in e.keywords):
            return ast.Dict(keys=[ast.Constant(value=k.arg) for k in e.keywords], values=[k.value for k in e.keywords])
        return None

    # ---- expressions
    def expr(self, e):
        pe = self

        class T(ast.NodeTransformer):
            def visit_Subscript(self, node):
                self.generic_visit(node)
                if not isinstance(node.ctx, ast.Load):
                    return node
                base = node.value

                def int_of(e_):
                    if e_ is None:
                        return None
                    if isinstance(e_, ast.Constant) and isinstance(e_.value, int) and not isinstance(e_.value, bool):
                        return e_.value
                    if isinstance(e_, ast.UnaryOp) and isinstance(e_.op, ast.USub) and isinstance(e_.operand, ast.Constant) and isinstance(e_.operand.value, int) \
                            and not isinstance(e_.operand.value, bool):
                        return -e_.operand.value
                    return 'x'
                if isinstance(node.slice, ast.UnaryOp) and isinstance(int_of(node.slice), int):
                    node.slice = ast.copy_location(ast.Constant(value=int_of(node.slice)), node.slice)
                # (a, b, c)[:-1] / [1:] of a display written in place: the shorter display
                if isinstance(base, (ast.Tuple, ast.List)) and isinstance(node.slice, ast.Slice) and node.slice.step is None and \
                        not any(isinstance(e_, ast.Starred) for e_ in base.elts) and int_of(node.slice.lower) != 'x' and int_of(node.slice.upper) != 'x':
                    pe.changed += 1
                    return ast.copy_location(type(base)(elts=base.elts[int_of(node.slice.lower):int_of(node.slice.upper)], ctx=ast.Load()), node)
                if isinstance(base, ast.Name) and base.id in pe.tables:
                    base = pe.tables[base.id]
                elif isinstance(base, ast.Tuple) and isinstance(node.slice, ast.Constant) and isinstance(node.slice.value, int) and not isinstance(node.slice.value, bool) \
                        and -len(base.elts) <= node.slice.value < len(base.elts) and not any(isinstance(e_, ast.Starred) for e_ in base.elts):
                    pe.changed += 1
                    return base.elts[node.slice.value]      # (a, b)[0]: the component (the display is only analysed, never executed)
                elif not (isinstance(base, (ast.Dict, ast.Tuple, ast.List)) and _static(base, pe.locals)):
                    return node
                k = node.slice
                if isinstance(k, ast.Constant):
                    if isinstance(base, ast.Dict):
                        for kk, vv in zip(base.keys, base.values):
                            if isinstance(kk, ast.Constant) and kk.value == k.value and type(kk.value) is type(k.value):
                                pe.changed += 1
                                return copy.deepcopy(vv)
                    elif isinstance(k.value, int) and not isinstance(k.value, bool) and -len(base.elts) <= k.value < len(base.elts):
                        pe.changed += 1
                        return copy.deepcopy(base.elts[k.value])
                return node

            def visit_Call(self, node):
                self.generic_visit(node)
                f = node.func
                fn_ = ast.unparse(f) if isinstance(f, (ast.Name, ast.Attribute)) else ''
                base_ = fn_.split('.')[-1]
                root_ = fn_.split('.')[0]
                if root_ not in pe.locals and not node.keywords:
                    # functional idioms of the standard library, spelled out as comprehensions (same items, same order, same laziness class for the analysis)
                    #   map(attrgetter('a'), X) -> (e.a for e in X);  map(itemgetter(k), X) -> (e[k] for e in X);  map(lambda e: B, X) -> (B for e in X)
                    if fn_ == 'map' and len(node.args) == 2:
                        g_ = node.args[0]
                        var = '_m%d' % (getattr(node, 'lineno', 0) * 100 + getattr(node, 'col_offset', 0))
                        elt = None
                        if isinstance(g_, ast.Call) and ast.unparse(g_.func).split('.')[-1] == 'attrgetter' and len(g_.args) == 1 and isinstance(g_.args[0], ast.Constant) \
                                and isinstance(g_.args[0].value, str) and g_.args[0].value.isidentifier():
                            elt = ast.Attribute(value=ast.Name(id=var, ctx=ast.Load()), attr=g_.args[0].value, ctx=ast.Load())
                        elif isinstance(g_, ast.Call) and ast.unparse(g_.func).split('.')[-1] == 'itemgetter' and len(g_.args) == 1 and isinstance(g_.args[0], ast.Constant):
                            elt = ast.Subscript(value=ast.Name(id=var, ctx=ast.Load()), slice=g_.args[0], ctx=ast.Load())
                        elif isinstance(g_, ast.Lambda) and len(g_.args.args) == 1 and not g_.args.defaults and not g_.args.kwonlyargs and not g_.args.vararg:
                            var = g_.args.args[0].arg
                            elt = g_.body
                        if elt is not None:
                            pe.changed += 1
                            return ast.copy_location(ast.GeneratorExp(elt=elt, generators=[ast.comprehension(target=ast.Name(id=var, ctx=ast.Store()), iter=node.args[1],
                                                                                                              ifs=[], is_async=0)]), node)
                    #   chain.from_iterable(G) -> (y for x in G for y in x)
                    flat = None
                    if fn_ in ('chain.from_iterable', 'itertools.chain.from_iterable') and len(node.args) == 1:
                        flat = node.args[0]
                    #   reduce(iadd / add / concat, G, []) and sum(G, []) -> [y for x in G for y in x]
                    as_list = False
                    if base_ == 'reduce' and len(node.args) == 3 and ast.unparse(node.args[0]).split('.')[-1] in ('iadd', 'add', 'concat', 'iconcat') and \
                            isinstance(node.args[2], ast.List) and not node.args[2].elts:
                        flat, as_list = node.args[1], True
                    if fn_ == 'sum' and len(node.args) == 2 and isinstance(node.args[1], ast.List) and not node.args[1].elts:
                        flat, as_list = node.args[0], True
                    if flat is not None:
                        k_ = getattr(node, 'lineno', 0) * 100 + getattr(node, 'col_offset', 0)
                        xo, xi = '_fo%d' % k_, '_fi%d' % k_
                        gens = None
                        if isinstance(flat, ast.GeneratorExp) and len(flat.generators) == 1 and not flat.generators[0].ifs:
                            # (E for v in X) flattened: y for v in X for y in E
                            gens = [flat.generators[0], ast.comprehension(target=ast.Name(id=xi, ctx=ast.Store()), iter=flat.elt, ifs=[], is_async=0)]
                        else:
                            gens = [ast.comprehension(target=ast.Name(id=xo, ctx=ast.Store()), iter=flat, ifs=[], is_async=0),
                                    ast.comprehension(target=ast.Name(id=xi, ctx=ast.Store()), iter=ast.Name(id=xo, ctx=ast.Load()), ifs=[], is_async=0)]
                        pe.changed += 1
                        cls_ = ast.ListComp if as_list else ast.GeneratorExp
                        return ast.copy_location(cls_(elt=ast.Name(id=xi, ctx=ast.Load()), generators=gens), node)
                    #   list(<generator expression>) -> [..]
                    if fn_ == 'list' and len(node.args) == 1 and isinstance(node.args[0], ast.GeneratorExp):
                        pe.changed += 1
                        return ast.copy_location(ast.ListComp(elt=node.args[0].elt, generators=node.args[0].generators), node)
                # self.__dict__.get('field') / vars(self).get('field'): the field, tolerating objects restored from older pickles (normal form: the field)
                if isinstance(f, ast.Attribute) and f.attr == 'get' and not node.keywords and len(node.args) in (1, 2) and isinstance(node.args[0], ast.Constant) \
                        and isinstance(node.args[0].value, str) and node.args[0].value.isidentifier() \
                        and (len(node.args) == 1 or isinstance(node.args[1], ast.Constant) and node.args[1].value is None):
                    holder = f.value
                    obj = None
                    if isinstance(holder, ast.Attribute) and holder.attr == '__dict__' and isinstance(holder.value, ast.Name):
                        obj = holder.value
                    elif isinstance(holder, ast.Call) and isinstance(holder.func, ast.Name) and holder.func.id == 'vars' and len(holder.args) == 1 and isinstance(holder.args[0], ast.Name):
                        obj = holder.args[0]
                    if obj is not None and obj.id == 'self':
                        pe.changed += 1
                        return ast.copy_location(ast.Attribute(value=ast.Name(id='self', ctx=ast.Load()), attr=node.args[0].value, ctx=ast.Load()), node)
                if isinstance(f, ast.Attribute) and isinstance(f.value, ast.Constant) and isinstance(f.value.value, str) and not node.keywords \
                        and f.attr in ('replace', 'strip', 'lstrip', 'rstrip', 'lower', 'upper', 'title', 'capitalize') \
                        and all(isinstance(a, ast.Constant) and isinstance(a.value, (str, int)) for a in node.args):
                    try:
                        val = getattr(f.value.value, f.attr)(*[a.value for a in node.args])
                        pe.changed += 1
                        return ast.copy_location(ast.Constant(value=val), node)
                    except Exception:
                        pass
                if any(k.arg is None for k in node.keywords):
                    new_kw = []
                    okk = True
                    for k in node.keywords:
                        if k.arg is not None:
                            new_kw.append(k)
                            continue
                        d = pe.dict_display(k.value)
                        if d is None:
                            okk = False
                            break
                        for kk, vv in zip(d.keys, d.values):
                            new_kw.append(ast.keyword(arg=kk.value, value=copy.deepcopy(vv)))
                    if okk and len({k.arg for k in new_kw}) == len(new_kw):
                        node.keywords = new_kw
                        pe.changed += 1
                if isinstance(f, ast.Name) and f.id == 'getattr' and len(node.args) == 2 and not node.keywords and isinstance(node.args[1], ast.Constant) \
                        and isinstance(node.args[1].value, str) and node.args[1].value.isidentifier():
                    pe.changed += 1
                    return ast.copy_location(ast.Attribute(value=node.args[0], attr=node.args[1].value, ctx=ast.Load()), node)
                if isinstance(f, ast.Name) and f.id == 'next' and len(node.args) == 2 and not node.keywords and isinstance(node.args[0], ast.GeneratorExp) \
                        and isinstance(node.args[0].elt, ast.Constant) and node.args[0].elt.value is True and isinstance(node.args[1], ast.Constant) and node.args[1].value is False \
                        and all(g.ifs for g in node.args[0].generators[-1:]):
                    # next((True for x in xs if c), False)  ==  any(c for x in xs)
                    g_ = node.args[0]
                    last = g_.generators[-1]
                    cond = last.ifs[0] if len(last.ifs) == 1 else ast.BoolOp(op=ast.And(), values=list(last.ifs))
                    gens = copy.deepcopy(g_.generators)
                    gens[-1].ifs = []
                    pe.changed += 1
                    return ast.copy_location(ast.Call(func=ast.Name(id='any', ctx=ast.Load()), args=[ast.GeneratorExp(elt=cond, generators=gens)], keywords=[]), node)
                if isinstance(f, ast.Name) and f.id == 'next' and len(node.args) == 2 and not node.keywords and isinstance(node.args[0], ast.GeneratorExp) \
                        and len(node.args[0].generators) == 1 and not node.args[0].generators[0].is_async:
                    # next((E for x in TABLE if C), D)  ==  E1 if C1 else E2 if C2 else .. D
                    g_ = node.args[0].generators[0]
                    elems = pe.seq(g_.iter)
                    if elems is not None:
                        res = node.args[1]
                        okk = True
                        for e_ in reversed(elems):
                            b = _bind_target(g_.target, e_)
                            if b is None:
                                okk = False
                                break
                            val = _Subst(b).visit(copy.deepcopy(node.args[0].elt))
                            if not g_.ifs:
                                res = val
                            else:
                                cond = g_.ifs[0] if len(g_.ifs) == 1 else ast.BoolOp(op=ast.And(), values=list(g_.ifs))
                                res = ast.IfExp(test=_Subst(b).visit(copy.deepcopy(cond)), body=val, orelse=res)
                        if okk:
                            pe.changed += 1
                            return ast.copy_location(res, node)
                if isinstance(f, ast.Name) and f.id in ('any', 'all') and len(node.args) == 1 and not node.keywords and isinstance(node.args[0], (ast.GeneratorExp, ast.ListComp)):
                    items = pe.expand_comp(node.args[0])
                    if items is not None:
                        pe.changed += 1
                        if len(items) == 1:
                            return ast.copy_location(ast.Call(func=ast.Name(id='bool', ctx=ast.Load()), args=[items[0]], keywords=[]), node)
                        return ast.copy_location(ast.BoolOp(op=ast.Or() if f.id == 'any' else ast.And(), values=items), node)
                return node

            def visit_DictComp(self, node):
                self.generic_visit(node)
                if len(node.generators) == 1 and not node.generators[0].ifs and not node.generators[0].is_async:
                    g = node.generators[0]
                    elems = pe.seq(g.iter)
                    if elems is not None or (isinstance(g.iter, (ast.Tuple, ast.List)) and not g.iter.elts):
                        ks, vs = [], []
                        for e in elems or []:
                            b = _bind_target(g.target, e)
                            if b is None:
                                return node
                            ks.append(_Subst(b).visit(copy.deepcopy(node.key)))
                            vs.append(_Subst(b).visit(copy.deepcopy(node.value)))
                        pe.changed += 1
                        return ast.copy_location(ast.Dict(keys=ks, values=vs), node)
                return node

            def visit_ListComp(self, node):
                self.generic_visit(node)
                items = pe.expand_comp(node)
                if items is not None:
                    pe.changed += 1
                    return ast.copy_location(ast.List(elts=items, ctx=ast.Load()), node)
                return node

            def visit_BinOp(self, node):
                self.generic_visit(node)
                if isinstance(node.op, ast.Add) and isinstance(node.left, ast.Constant) and isinstance(node.right, ast.Constant) \
                        and isinstance(node.left.value, str) and isinstance(node.right.value, str):
                    pe.changed += 1
                    return ast.copy_location(ast.Constant(value=node.left.value + node.right.value), node)
                return node

            def visit_IfExp(self, node):
                self.generic_visit(node)
                if isinstance(node.test, ast.Constant):
                    pe.changed += 1
                    return node.body if node.test.value else node.orelse
                return node

            def visit_UnaryOp(self, node):
                self.generic_visit(node)
                if isinstance(node.op, ast.Not) and isinstance(node.operand, ast.Constant):
                    pe.changed += 1
                    return ast.copy_location(ast.Constant(value=not node.operand.value), node)
                return node

            def visit_Dict(self, node):
                self.generic_visit(node)
                # {**{'a': x, 'b': y}, 'c': z}: one display (later keys win, as in Python, when a key repeats)
                if any(k is None and isinstance(v, ast.Dict) and None not in v.keys for k, v in zip(node.keys, node.values)):
                    keys, vals = [], []
                    for k, v in zip(node.keys, node.values):
                        pairs = list(zip(v.keys, v.values)) if (k is None and isinstance(v, ast.Dict) and None not in v.keys) else [(k, v)]
                        for k2, v2 in pairs:
                            if k2 is not None and isinstance(k2, ast.Constant):
                                for i_, k3 in enumerate(keys):
                                    if isinstance(k3, ast.Constant) and k3.value == k2.value and type(k3.value) is type(k2.value):
                                        del keys[i_], vals[i_]
                                        break
                            keys.append(k2)
                            vals.append(v2)
                    node.keys, node.values = keys, vals
                    pe.changed += 1
                return node

            def visit_BoolOp(self, node):
                self.generic_visit(node)
                # constant operands: `True or x` is True, `False or x` is x, `True and x` is x, `False and x` is False (left to right, so nothing is skipped
                # that would have been evaluated)
                vals = list(node.values)
                out_ = []
                for i_, v_ in enumerate(vals):
                    if isinstance(v_, ast.Constant) and isinstance(v_.value, (bool, type(None))):
                        truth = bool(v_.value)
                        if isinstance(node.op, ast.Or) and truth or isinstance(node.op, ast.And) and not truth:
                            out_.append(v_)
                            break            # short-circuits here: the rest is never evaluated
                        if i_ < len(vals) - 1:
                            continue          # neutral element that is not the value of the whole expression: dropped
                    out_.append(v_)
                if len(out_) != len(vals):
                    pe.changed += 1
                    if not out_:
                        return ast.copy_location(ast.Constant(value=isinstance(node.op, ast.And)), node)
                    if len(out_) == 1:
                        return out_[0]
                    node.values = out_
                return node

            def visit_Compare(self, node):
                self.generic_visit(node)
                if len(node.ops) == 1 and isinstance(node.left, ast.Constant) and isinstance(node.comparators[0], ast.Constant):
                    a, b = node.left.value, node.comparators[0].value
                    op = node.ops[0]
                    val = None
                    if isinstance(op, ast.Eq):
                        val = a == b
                    elif isinstance(op, ast.NotEq):
                        val = a != b
                    elif isinstance(op, ast.Is) and (a is None or b is None or isinstance(a, bool) or isinstance(b, bool)):
                        val = a is b
                    elif isinstance(op, ast.IsNot) and (a is None or b is None or isinstance(a, bool) or isinstance(b, bool)):
                        val = a is not b
                    if val is not None:
                        pe.changed += 1
                        return ast.copy_location(ast.Constant(value=bool(val)), node)
                return node
        return T().visit(e)

    def expand_comp(self, comp):
        if len(comp.generators) != 1:
            return None
        g = comp.generators[0]
        if g.is_async or g.ifs:
            return None
        elems = self.seq(g.iter)
        if elems is None:
            return None
        out = []
        for e in elems:
            b = _bind_target(g.target, e)
            if b is None:
                return None
            out.append(_Subst(b).visit(copy.deepcopy(comp.elt)))
        return out

    # ---- statements
    def _log_call(self, st):
        """logger.debug('..', <pure arguments>) on a module-level logging.getLogger(..) object (or the logging module itself): diagnostics, no part of any property."""
        if not (isinstance(st, ast.Expr) and isinstance(st.value, ast.Call) and isinstance(st.value.func, ast.Attribute) and isinstance(st.value.func.value, ast.Name)):
            return False
        c = st.value
        if c.func.value.id not in self.loggers or c.func.value.id in self.locals or c.func.attr not in LOG_METHODS:
            return False
        from .normalize import _pure
        return all(_pure(a) for a in c.args) and all(k.arg is not None and _pure(k.value) for k in c.keywords)

    def _log_test(self, e):
        from .normalize import _pure
        if isinstance(e, ast.Call) and isinstance(e.func, ast.Attribute) and isinstance(e.func.value, ast.Name) and e.func.value.id in self.loggers and \
                e.func.attr in ('isEnabledFor', 'getEffectiveLevel') and all(_pure(a) for a in e.args):
            return True
        return _pure(e)

    def block(self, stmts):
        out = []
        for i, st in enumerate(stmts):
            self.cur = (stmts, i)
            if self.loggers and self._log_call(st):
                self.changed += 1
                continue
            for s_ in self.stmt(st):
                # `if logger.isEnabledFor(DEBUG): <only logging>` has become an empty test
                if self.loggers and isinstance(s_, ast.If) and all(isinstance(x, ast.Pass) for x in s_.body + s_.orelse) and self._log_test(s_.test):
                    self.changed += 1
                    continue
                out.append(s_)
        # c = next(iter(X), D); if c is not D: <body that raises / returns>      ->      for c in X: <body>
        i = 0
        while i + 1 < len(out):
            a, b = out[i], out[i + 1]
            if isinstance(a, ast.Assign) and len(a.targets) == 1 and isinstance(a.targets[0], ast.Name) and isinstance(a.value, ast.Call) \
                    and isinstance(a.value.func, ast.Name) and a.value.func.id == 'next' and len(a.value.args) == 2 and not a.value.keywords \
                    and isinstance(a.value.args[0], ast.Call) and isinstance(a.value.args[0].func, ast.Name) and a.value.args[0].func.id == 'iter' \
                    and len(a.value.args[0].args) == 1 and isinstance(b, ast.If) and not b.orelse and isinstance(b.body[-1], (ast.Raise, ast.Return)):
                c_ = a.targets[0].id
                d_ = a.value.args[1]
                t_ = b.test
                is_not = isinstance(t_, ast.Compare) and len(t_.ops) == 1 and isinstance(t_.ops[0], ast.IsNot) and isinstance(t_.left, ast.Name) and t_.left.id == c_ \
                    and ast.dump(t_.comparators[0]) == ast.dump(d_)
                later = [x for s_ in out[i + 2:] for x in ast.walk(s_) if isinstance(x, ast.Name) and x.id == c_]
                if is_not and not later:
                    loop = ast.copy_location(ast.For(target=ast.Name(id=c_, ctx=ast.Store()), iter=a.value.args[0].args[0], body=b.body, orelse=[]), a)
                    ast.fix_missing_locations(loop)
                    out[i:i + 2] = [loop]
                    self.changed += 1
                    continue
            i += 1
        # flag = True; while flag: BODY; flag = E      ->      while True: BODY; if not E: break
        i = 0
        while i + 1 < len(out):
            a, b = out[i], out[i + 1]
            if isinstance(a, ast.Assign) and len(a.targets) == 1 and isinstance(a.targets[0], ast.Name) and isinstance(a.value, ast.Constant) and a.value.value is True \
                    and isinstance(b, ast.While) and isinstance(b.test, ast.Name) and b.test.id == a.targets[0].id and not b.orelse and b.body:
                flag = a.targets[0].id
                last = b.body[-1]
                stores = [x for x in ast.walk(self.fn) if isinstance(x, ast.Name) and x.id == flag and isinstance(x.ctx, (ast.Store, ast.Del))]
                loads = [x for x in ast.walk(self.fn) if isinstance(x, ast.Name) and x.id == flag and isinstance(x.ctx, ast.Load)]
                jumps = [x for s_ in b.body for x in ast.walk(s_) if isinstance(x, (ast.Continue, ast.Break))]
                # the flag set at the end of every branch of the iteration: if c: ..; flag = E  else: ..; flag = False
                def tails(blk):
                    """[(block, index)] of the assignments to the flag that end every path through blk, or None when some path ends otherwise."""
                    if not blk:
                        return None
                    l_ = blk[-1]
                    if isinstance(l_, ast.Assign) and len(l_.targets) == 1 and isinstance(l_.targets[0], ast.Name) and l_.targets[0].id == flag:
                        return [(blk, len(blk) - 1)]
                    if isinstance(l_, ast.If) and l_.orelse:
                        a_, b_ = tails(l_.body), tails(l_.orelse)
                        if a_ is not None and b_ is not None:
                            return a_ + b_
                    return None
                tl = tails(b.body) if not (isinstance(last, ast.Assign) and len(last.targets) == 1 and isinstance(last.targets[0], ast.Name) and last.targets[0].id == flag) else None
                if tl is not None and len(tl) >= 2 and len(stores) == 1 + len(tl) and len(loads) == 1 and not jumps:
                    for blk_, idx_ in tl:
                        st_ = blk_[idx_]
                        if isinstance(st_.value, ast.Constant) and st_.value.value is True:
                            blk_[idx_] = ast.copy_location(ast.Pass(), st_)
                        elif isinstance(st_.value, ast.Constant) and st_.value.value is False:
                            blk_[idx_] = ast.copy_location(ast.Break(), st_)
                        else:
                            blk_[idx_] = ast.copy_location(ast.If(test=ast.UnaryOp(op=ast.Not(), operand=st_.value), body=[ast.Break()], orelse=[]), st_)
                    new_loop = ast.copy_location(ast.While(test=ast.Constant(value=True), body=b.body, orelse=[]), b)
                    ast.fix_missing_locations(new_loop)
                    out[i:i + 2] = [new_loop]
                    self.changed += 1
                    continue
                if isinstance(last, ast.Assign) and len(last.targets) == 1 and isinstance(last.targets[0], ast.Name) and last.targets[0].id == flag \
                        and len(stores) == 2 and len(loads) == 1 and not jumps:
                    brk = ast.If(test=ast.UnaryOp(op=ast.Not(), operand=last.value), body=[ast.Break()], orelse=[])
                    new_loop = ast.copy_location(ast.While(test=ast.Constant(value=True), body=b.body[:-1] + [brk], orelse=[]), b)
                    ast.fix_missing_locations(new_loop)
                    out[i:i + 2] = [new_loop]
                    self.changed += 1
                    continue
            i += 1
        # d = {..} directly followed by d.update({..}) / d['k'] = v : one display
        i = 0
        while i + 1 < len(out):
            a, b = out[i], out[i + 1]
            if isinstance(a, ast.Assign) and len(a.targets) == 1 and isinstance(a.targets[0], ast.Name) and isinstance(a.value, ast.Dict) and None not in a.value.keys:
                nm = a.targets[0].id
                add = None
                if isinstance(b, ast.Expr) and isinstance(b.value, ast.Call) and isinstance(b.value.func, ast.Attribute) and b.value.func.attr == 'update' \
                        and isinstance(b.value.func.value, ast.Name) and b.value.func.value.id == nm and len(b.value.args) == 1 and not b.value.keywords \
                        and isinstance(b.value.args[0], ast.Dict) and None not in b.value.args[0].keys:
                    add = list(zip(b.value.args[0].keys, b.value.args[0].values))
                if isinstance(b, ast.Assign) and len(b.targets) == 1 and isinstance(b.targets[0], ast.Subscript) and isinstance(b.targets[0].value, ast.Name) and \
                        b.targets[0].value.id == nm and isinstance(b.targets[0].slice, ast.Constant) and isinstance(b.targets[0].slice.value, str):
                    add = [(b.targets[0].slice, b.value)]
                if add is not None and not any(isinstance(x, ast.Name) and x.id == nm for k_, v_ in add for x in ast.walk(v_)):
                    have = {ast.dump(k_) for k_ in a.value.keys}
                    if not any(ast.dump(k_) in have for k_, v_ in add):
                        a.value.keys += [k_ for k_, v_ in add]
                        a.value.values += [v_ for k_, v_ in add]
                        del out[i + 1]
                        self.changed += 1
                        continue
            i += 1
        return out or [ast.Pass()]

    @staticmethod
    def _leading_walrus(test):
        """(NamedExpr, test with the name in its place) when the first thing the test evaluates is `name := E`: the whole test, the left operand of a
        comparison, the operand of `not`, the first operand of and / or."""
        if isinstance(test, ast.NamedExpr) and isinstance(test.target, ast.Name):
            return test, ast.copy_location(ast.Name(id=test.target.id, ctx=ast.Load()), test)
        if isinstance(test, ast.Compare):
            r = _PE._leading_walrus(test.left)
            if r:
                return r[0], ast.copy_location(ast.Compare(left=r[1], ops=test.ops, comparators=test.comparators), test)
        if isinstance(test, ast.UnaryOp) and isinstance(test.op, ast.Not):
            r = _PE._leading_walrus(test.operand)
            if r:
                return r[0], ast.copy_location(ast.UnaryOp(op=test.op, operand=r[1]), test)
        if isinstance(test, ast.BoolOp):
            r = _PE._leading_walrus(test.values[0])
            if r:
                return r[0], ast.copy_location(ast.BoolOp(op=test.op, values=[r[1]] + test.values[1:]), test)
        return None

    def stmt(self, st):
        if isinstance(st, (ast.FunctionDef, ast.AsyncFunctionDef, ast.ClassDef)):
            return [st]
        # while (x := E) <cond>: BODY      ->      while True: x = E; if not <cond on x>: break; BODY        (the loop rotation then gives the pre-tested form)
        # if (x := E) <cond>: ..           ->      x = E; if <cond on x>: ..
        if isinstance(st, (ast.While, ast.If)):
            w = self._leading_walrus(st.test)
            if w is not None and not (isinstance(st, ast.While) and st.orelse):
                named, rest = w
                assign = ast.copy_location(ast.Assign(targets=[ast.Name(id=named.target.id, ctx=ast.Store())], value=named.value), st)
                self.changed += 1
                if isinstance(st, ast.If):
                    st.test = rest
                    ast.fix_missing_locations(assign)
                    return self.stmt(assign) + self.stmt(st)
                brk = ast.copy_location(ast.If(test=ast.UnaryOp(op=ast.Not(), operand=rest), body=[ast.Break()], orelse=[]), st)
                new_loop = ast.copy_location(ast.While(test=ast.Constant(value=True), body=[assign, brk] + st.body, orelse=[]), st)
                ast.fix_missing_locations(new_loop)
                return self.stmt(new_loop)
        # expressions of the statement itself (not of nested blocks)
        for fld, val in ast.iter_fields(st):
            if fld in ('body', 'orelse', 'finalbody', 'handlers'):
                continue
            if isinstance(val, ast.expr):
                setattr(st, fld, self.expr(val))
            elif isinstance(val, list) and val and isinstance(val[0], ast.expr):
                setattr(st, fld, [self.expr(v) for v in val])
            elif isinstance(val, list) and val and isinstance(val[0], ast.keyword):
                for kw in val:
                    kw.value = self.expr(kw.value)
            elif isinstance(val, list) and val and isinstance(val[0], ast.withitem):
                for it in val:
                    it.context_expr = self.expr(it.context_expr)
        for fld in ('body', 'orelse', 'finalbody'):
            blk = getattr(st, fld, None)
            if isinstance(blk, list) and blk and isinstance(blk[0], ast.stmt):
                setattr(st, fld, self.block(blk))
        if isinstance(st, ast.Try):
            for h in st.handlers:
                h.body = self.block(h.body)
        if isinstance(st, ast.If) and isinstance(st.test, ast.Constant):
            self.changed += 1
            return list(st.body if st.test.value else st.orelse)
        if isinstance(st, ast.Expr) and isinstance(st.value, ast.Call) and isinstance(st.value.func, ast.Name) and st.value.func.id == 'setattr' and len(st.value.args) == 3 \
                and not st.value.keywords and isinstance(st.value.args[1], ast.Constant) and isinstance(st.value.args[1].value, str) and st.value.args[1].value.isidentifier():
            # setattr(x, 'name', v)  ->  x.name = v
            self.changed += 1
            a0, a1, a2 = st.value.args
            return [ast.copy_location(ast.Assign(targets=[ast.Attribute(value=a0, attr=a1.value, ctx=ast.Store())], value=a2, lineno=st.lineno), st)]
        if isinstance(st, ast.Assign) and len(st.targets) == 1 and isinstance(st.targets[0], (ast.Tuple, ast.List)) and isinstance(st.value, (ast.Tuple, ast.List)):
            b = _bind_target(st.targets[0], st.value)
            # split only when no right-hand side reads a name bound on the left (simultaneous assignment semantics)
            if b is not None and all(isinstance(t, ast.Name) for t in st.targets[0].elts) and \
                    not any(isinstance(x, ast.Name) and x.id in b for v in st.value.elts for x in ast.walk(v)):
                self.changed += 1
                return [ast.copy_location(ast.Assign(targets=[ast.Name(id=t.id, ctx=ast.Store())], value=v, lineno=st.lineno), st) for t, v in zip(st.targets[0].elts, st.value.elts)]
        if isinstance(st, ast.While) and isinstance(st.test, ast.Constant) and st.test.value is True and not st.orelse and not getattr(st, '_synthetic', False):
            rot = self.rotate(st)
            if rot is not None:
                self.changed += 1
                return rot
        if isinstance(st, ast.For):
            un = self.unroll(st)
            if un is not None:
                self.changed += 1
                return un
        return [st]

    def rotate(self, lp):
        """`while True: A; if c: break; B`  ->  `A; while not c: B; A`  (the pre-tested form; A is copied). Only when the loop has exactly that one exit
        and A contains no continue."""
        jumps = []

        def find(n, inner):
            for c in ast.iter_child_nodes(n):
                if isinstance(c, (ast.FunctionDef, ast.AsyncFunctionDef, ast.Lambda, ast.ClassDef)):
                    continue
                if isinstance(c, (ast.Break, ast.Continue)) and not inner:
                    jumps.append(c)
                find(c, inner or isinstance(c, (ast.For, ast.While)))
        for s_ in lp.body:
            if isinstance(s_, (ast.Break, ast.Continue)):
                jumps.append(s_)
            find(s_, isinstance(s_, (ast.For, ast.While)))
        exits = [(i, s_) for i, s_ in enumerate(lp.body) if isinstance(s_, ast.If) and not s_.orelse and len(s_.body) == 1 and isinstance(s_.body[0], ast.Break)]
        if len(exits) != 1 or len(jumps) != 1 or jumps[0] is not exits[0][1].body[0]:
            return None
        if any(isinstance(x, ast.Return) for s_ in lp.body for x in ast.walk(s_)):
            return None
        i, ex = exits[0]
        A, B = lp.body[:i], lp.body[i + 1:]
        if not B:
            return None      # `while True: A; if c: break` is a post-tested loop already in its simplest form
        test = ex.test.operand if isinstance(ex.test, ast.UnaryOp) and isinstance(ex.test.op, ast.Not) else ast.UnaryOp(op=ast.Not(), operand=ex.test)
        new = ast.copy_location(ast.While(test=test, body=B + [copy.deepcopy(s_) for s_ in A], orelse=[]), lp)
        out = list(A) + [new]
        for s_ in out:
            ast.fix_missing_locations(s_)
        return out

    def unroll(self, lp):
        self.allow_reads = lp.body      # (attribute reads may be unrolled when the body does not rebind them)
        try:
            elems = self.seq(lp.iter)
        finally:
            self.allow_reads = None
        if elems is None:
            return None
        else_block = list(lp.orelse)
        tnames = {x.id for x in ast.walk(lp.target) if isinstance(x, ast.Name)}
        if not tnames or _assigned_in(lp.body, tnames):
            return None
        own_jumps = []

        def find(n, inner):
            for c in ast.iter_child_nodes(n):
                if isinstance(c, (ast.FunctionDef, ast.AsyncFunctionDef, ast.Lambda, ast.ClassDef)):
                    continue
                if isinstance(c, (ast.Break, ast.Continue)) and not inner:
                    own_jumps.append(c)
                find(c, inner or isinstance(c, (ast.For, ast.While)))
        for s_ in lp.body:
            if isinstance(s_, (ast.Break, ast.Continue)):
                own_jumps.append(s_)
            find(s_, isinstance(s_, (ast.For, ast.While)))
        # the loop target is still readable after the loop in Python: refuse when it is read after the loop (conservative: anywhere outside the loop)
        inside = {id(x) for x in ast.walk(lp)}
        rebound = set()      # occurrences inside other loops / comprehensions that bind the same names themselves
        for other in ast.walk(self.fn):
            if other is not lp and isinstance(other, (ast.For, ast.comprehension)) and \
                    tnames & {x.id for x in ast.walk(other.target) if isinstance(x, ast.Name)}:
                scope = other if isinstance(other, ast.For) else None
                if scope is not None:
                    rebound |= {id(x) for x in ast.walk(scope)}
        if any(isinstance(x, ast.Name) and x.id in tnames and id(x) not in inside and id(x) not in rebound for x in ast.walk(self.fn)):
            return None
        first_match = len(lp.body) == 1 and isinstance(lp.body[0], ast.If) and not lp.body[0].orelse and isinstance(lp.body[0].body[-1], ast.Break) \
            and len(own_jumps) == 1 and own_jumps[0] is lp.body[0].body[-1]
        # `if c: break` statements at the top level of the body: the rest of the iteration and the later iterations run under `not c`
        top_breaks = [s_ for s_ in lp.body if isinstance(s_, ast.If) and not s_.orelse and isinstance(s_.body[-1], ast.Break)]
        guarded = bool(top_breaks) and not first_match and len(own_jumps) == len(top_breaks) and {id(j) for j in own_jumps} == {id(t.body[-1]) for t in top_breaks}
        if own_jumps and not first_match and not guarded:
            return None
        # `for .. in TABLE: if c: ..; return X` (first match returns): the repeated ifs are already exclusive through the returns
        bodies = []
        late = _bind_target(lp.target, elems[-1])
        for e in elems:
            b = _bind_target(lp.target, e)
            if b is None:
                return None
            bodies.append([_Subst(b, late).visit(copy.deepcopy(s_)) for s_ in lp.body])
        if guarded:
            orelse_ = [copy.deepcopy(s_) for s_ in else_block]

            def build(i):
                if i >= len(bodies):
                    return list(orelse_)
                out_ = []
                for k, s_ in enumerate(bodies[i]):
                    if isinstance(s_, ast.If) and not s_.orelse and isinstance(s_.body[-1], ast.Break):
                        rest = bodies[i][k + 1:]
                        # the remaining statements of this iteration may contain further guarded breaks: handle them by the same scheme
                        saved = bodies[i]
                        bodies[i] = rest
                        inner = build(i)
                        bodies[i] = saved
                        taken = s_.body[:-1]
                        if taken:
                            out_.append(ast.copy_location(ast.If(test=s_.test, body=taken, orelse=inner), s_))
                        elif inner:
                            out_.append(ast.copy_location(ast.If(test=ast.UnaryOp(op=ast.Not(), operand=s_.test), body=inner, orelse=[]), s_))
                        return out_
                    out_.append(s_)
                return out_ + build(i + 1)
            res = build(0)
            for s_ in res:
                ast.fix_missing_locations(s_)
            return self.block(res)
        if first_match:
            chain = else_block[0] if len(else_block) == 1 and False else None
            tail_else = [copy.deepcopy(s_) for s_ in else_block]
            for body in reversed(bodies):
                if_ = body[0]
                if_.body = if_.body[:-1] or [ast.copy_location(ast.Pass(), if_)]
                if_.orelse = [chain] if chain is not None else tail_else
                chain = if_
            res = [chain]
        else:
            res = [s_ for body in bodies for s_ in body] + [copy.deepcopy(s_) for s_ in else_block]
        for s_ in res:
            ast.fix_missing_locations(s_)
        # fold what the substitution made constant
        return self.block(res)


def _unmemo(fn):
    """A memo that lives during one call only:

        D = dict()  ..  if k not in D: <compute>; D[k] = V  ..  D[k]

    with D a local used in no other way, stands for computing V where the test is (the values are a function of the key; nothing else changes
    during the call): the test is dropped, `D[k] = V` becomes `D__memo = V`, every `D[k]` reads D__memo."""
    n_changed = 0
    for d_assign in [n for n in ast.walk(fn) if isinstance(n, ast.Assign) and len(n.targets) == 1 and isinstance(n.targets[0], ast.Name) and
                     (isinstance(n.value, ast.Dict) and not n.value.keys or isinstance(n.value, ast.Call) and isinstance(n.value.func, ast.Name) and
                      n.value.func.id == 'dict' and not n.value.args and not n.value.keywords)]:
        D = d_assign.targets[0].id
        occ = [n for n in ast.walk(fn) if isinstance(n, ast.Name) and n.id == D]
        if sum(1 for n in occ if isinstance(n.ctx, ast.Store)) != 1:
            continue
        ifs = []
        for n in ast.walk(fn):
            if isinstance(n, ast.If) and not n.orelse and isinstance(n.test, ast.Compare) and len(n.test.ops) == 1 and isinstance(n.test.ops[0], ast.NotIn) and \
                    isinstance(n.test.comparators[0], ast.Name) and n.test.comparators[0].id == D and isinstance(n.body[-1], ast.Assign) and \
                    len(n.body[-1].targets) == 1 and isinstance(n.body[-1].targets[0], ast.Subscript) and isinstance(n.body[-1].targets[0].value, ast.Name) and \
                    n.body[-1].targets[0].value.id == D and ast.dump(n.body[-1].targets[0].slice) == ast.dump(n.test.left):
                ifs.append(n)
        if len(ifs) != 1:
            continue
        the_if = ifs[0]
        key = ast.dump(the_if.test.left)
        loads = [n for n in ast.walk(fn) if isinstance(n, ast.Subscript) and isinstance(n.ctx, ast.Load) and isinstance(n.value, ast.Name) and n.value.id == D and ast.dump(n.slice) == key]
        accounted = 1 + 1 + 1 + len(loads)       # the binding, the test, the store, the loads
        if len(occ) != accounted or not loads or any(isinstance(x, ast.Name) and x.id == D for x in ast.walk(the_if.body[-1].value)):
            continue
        # the key must determine the value: everything the computation reads that varies from one evaluation to the next (loop variables, parameters of an
        # enclosing nested function, locals assigned in loops) has to be part of the key - as the same attribute chain. `memo[t.guard] = evaluate(t)` is
        # NOT a function of its key, and is left alone (the rules then see an evaluation that is conditional on the memo).
        def chains(node):
            out_ = set()

            def visit(n_):
                if isinstance(n_, (ast.Attribute, ast.Name)):
                    base = n_
                    while isinstance(base, ast.Attribute):
                        base = base.value
                    if isinstance(base, ast.Name):
                        out_.add((base.id, ast.unparse(n_)))
                        return
                for c_ in ast.iter_child_nodes(n_):
                    visit(c_)
            visit(node)
            return out_
        key_expr = the_if.test.left
        if isinstance(key_expr, ast.Name):
            kdefs = [n for n in ast.walk(fn) if isinstance(n, ast.Assign) and len(n.targets) == 1 and isinstance(n.targets[0], ast.Name) and n.targets[0].id == key_expr.id]
            if len(kdefs) != 1:
                continue
            key_expr = kdefs[0].value
        key_chains = {c for _, c in chains(key_expr)}
        varying = set()
        for n in ast.walk(fn):
            if isinstance(n, (ast.For, ast.comprehension)):
                varying |= {x.id for x in ast.walk(n.target) if isinstance(x, ast.Name)}
            if isinstance(n, (ast.FunctionDef, ast.Lambda)) and n is not fn:
                varying |= {a.arg for a in n.args.args + n.args.kwonlyargs}
            if isinstance(n, (ast.For, ast.While)):
                varying |= {x.id for s_ in n.body for x in ast.walk(s_) if isinstance(x, ast.Name) and isinstance(x.ctx, ast.Store)}
        own = {x.id for s_ in the_if.body for x in ast.walk(s_) if isinstance(x, ast.Name) and isinstance(x.ctx, ast.Store)}
        own |= {x.id for s_ in the_if.body for g_ in ast.walk(s_) if isinstance(g_, ast.comprehension) for x in ast.walk(g_.target) if isinstance(x, ast.Name)}
        bad_dep = False
        for s_ in the_if.body:
            for base, chain in chains(s_):
                if base in varying and base not in own and base != D and chain not in key_chains and not any(chain.startswith(k_ + '.') for k_ in key_chains):
                    bad_dep = True
        if bad_dep:
            continue
        tmp = D + '__memo'
        parents = {}
        for n in ast.walk(fn):
            for c in ast.iter_child_nodes(n):
                parents[id(c)] = n
        holder = parents.get(id(the_if))
        blk = next((b for b in (getattr(holder, f, None) for f in ('body', 'orelse', 'finalbody')) if isinstance(b, list) and the_if in b), None)
        dblk_holder = parents.get(id(d_assign))
        dblk = next((b for b in (getattr(dblk_holder, f, None) for f in ('body', 'orelse', 'finalbody')) if isinstance(b, list) and d_assign in b), None)
        if blk is None or dblk is None:
            continue
        store = the_if.body[-1]
        new_store = ast.copy_location(ast.Assign(targets=[ast.Name(id=tmp, ctx=ast.Store())], value=store.value), store)
        i = blk.index(the_if)
        blk[i:i + 1] = the_if.body[:-1] + [new_store]
        for ld in loads:
            par = parents.get(id(ld))
            for fld, val in ast.iter_fields(par):
                if val is ld:
                    setattr(par, fld, ast.copy_location(ast.Name(id=tmp, ctx=ast.Load()), ld))
                elif isinstance(val, list):
                    for j, x in enumerate(val):
                        if x is ld:
                            val[j] = ast.copy_location(ast.Name(id=tmp, ctx=ast.Load()), ld)
        dblk.remove(d_assign)
        if not dblk:
            dblk.append(ast.copy_location(ast.Pass(), d_assign))
        n_changed += 1
    if n_changed:
        ast.fix_missing_locations(fn)
    return n_changed


def _fold_default_flags(tree):
    """Options that are off unless the caller of the constructor asks for them: a class-level `X = False / None` whose only instance writes are
    `self.X = ..` in __init__ under a test of a constructor parameter. The properties are stated for objects built the documented way, so in the other
    methods of the class `self.X` is read as that constant (the branches it selects are then folded). A changed default changes the constant."""
    n = 0
    for cls in [c for c in ast.walk(tree) if isinstance(c, ast.ClassDef)]:
        consts = {}
        for st in cls.body:
            if isinstance(st, ast.Assign) and len(st.targets) == 1 and isinstance(st.targets[0], ast.Name) and isinstance(st.value, ast.Constant) and \
                    (st.value.value is None or st.value.value is False) and st.targets[0].id.startswith('_'):
                consts[st.targets[0].id] = st.value
        if not consts:
            continue
        init = next((m for m in cls.body if isinstance(m, ast.FunctionDef) and m.name == '__init__'), None)
        params = {a.arg for a in (init.args.args + init.args.kwonlyargs)} if init is not None else set()
        defaults = {}
        if init is not None:
            a = init.args
            for p_, d_ in list(zip(a.args[len(a.args) - len(a.defaults):], a.defaults)) + [(p_, d_) for p_, d_ in zip(a.kwonlyargs, a.kw_defaults) if d_ is not None]:
                if isinstance(d_, ast.Constant):
                    defaults[p_.arg] = d_.value
        parent = {}
        for x in ast.walk(tree):
            for c in ast.iter_child_nodes(x):
                parent[id(c)] = x
        for X in list(consts):
            okk = init is not None
            for x in ast.walk(tree):
                if isinstance(x, ast.Attribute) and x.attr == X and isinstance(x.ctx, (ast.Store, ast.Del)):
                    # allowed: inside __init__ of this class, on self, under an `if` testing a parameter whose default makes the test false
                    inside = False
                    up = parent.get(id(x))
                    guarded = False
                    while up is not None:
                        if isinstance(up, ast.If):
                            t = up.test
                            nm = t.id if isinstance(t, ast.Name) else (t.left.id if isinstance(t, ast.Compare) and isinstance(t.left, ast.Name) and len(t.ops) == 1 and
                                                                       isinstance(t.ops[0], ast.IsNot) and isinstance(t.comparators[0], ast.Constant) and
                                                                       t.comparators[0].value is None else None)
                            if nm in params and nm in defaults and (defaults[nm] is None or defaults[nm] is False) and any(x is y for s_ in up.body for y in ast.walk(s_)):
                                guarded = True
                        if up is init:
                            inside = True
                        up = parent.get(id(up))
                    if not (inside and guarded):
                        okk = False
                if isinstance(x, ast.Call) and isinstance(x.func, ast.Name) and x.func.id in ('setattr', 'delattr') and len(x.args) >= 2 and \
                        isinstance(x.args[1], ast.Constant) and x.args[1].value == X:
                    okk = False
            if not okk:
                continue
            for m in cls.body:
                if not isinstance(m, ast.FunctionDef) or m is init:
                    continue
                me = m.args.args[0].arg if m.args.args else None
                for x in ast.walk(m):
                    for fld, val in ast.iter_fields(x):
                        vals = val if isinstance(val, list) else [val]
                        for i_, v_ in enumerate(vals):
                            if isinstance(v_, ast.Attribute) and v_.attr == X and isinstance(v_.ctx, ast.Load) and isinstance(v_.value, ast.Name) and v_.value.id == me:
                                new = ast.copy_location(ast.Constant(value=consts[X].value), v_)
                                if isinstance(val, list):
                                    val[i_] = new
                                else:
                                    setattr(x, fld, new)
                                n += 1
    return n


def partial_eval_module(tree):
    """Rewrite every function of the module in place; returns the number of rewrites."""
    tables = module_tables(tree)
    loggers = module_loggers(tree)
    total = _fold_default_flags(tree)
    for fn in [n for n in ast.walk(tree) if isinstance(n, (ast.FunctionDef, ast.AsyncFunctionDef))]:
        total += _unmemo(fn)
        pe = _PE(fn, tables)
        pe.loggers = loggers
        fn.body = pe.block(fn.body)
        total += pe.changed
    ast.fix_missing_locations(tree)
    return total
